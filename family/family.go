// Package family builds the grammar families (the enumerated "programs" dimension): grammar
// ASTs over vhlib/ref, their .peg text in the documented syntax, their Go literal for the
// harness, and an independent well-formedness filter (Ford: no left recursion through
// nullable prefixes, no repetition of a nullable expression).
package family

import (
	"crypto/sha256"
	"fmt"
	"sort"
	"strconv"
	"strings"

	"vhlib/ref"
)

type E = ref.Expr

// ---- constructors ----

func Lit(s string) *E          { return &E{K: ref.KLit, Lit: []rune(s)} }
func ILit(s string) *E         { return &E{K: ref.KLit, Lit: []rune(s), Fold: true} }
func Dot() *E                  { return &E{K: ref.KDot} }
func Empty() *E                { return &E{K: ref.KEmpty} }
func Seq(k ...*E) *E           { return &E{K: ref.KSeq, Kids: k} }
func Alt(k ...*E) *E           { return &E{K: ref.KAlt, Kids: k} }
func Opt(e *E) *E              { return &E{K: ref.KOpt, Kids: []*E{e}} }
func Star(e *E) *E             { return &E{K: ref.KStar, Kids: []*E{e}} }
func Plus(e *E) *E             { return &E{K: ref.KPlus, Kids: []*E{e}} }
func And(e *E) *E              { return &E{K: ref.KAnd, Kids: []*E{e}} }
func Not(e *E) *E              { return &E{K: ref.KNot, Kids: []*E{e}} }
func Cap(e *E) *E              { return &E{K: ref.KCap, Kids: []*E{e}} }
func Ref(rule int) *E          { return &E{K: ref.KRef, Rule: rule} }
func Act() *E                  { return &E{K: ref.KAct} } // numbered by Finish
func Pred(i int) *E            { return &E{K: ref.KPred, Idx: i} }
func State() *E                { return &E{K: ref.KState} }
func Class(r ...ref.Range) *E  { return &E{K: ref.KClass, Ranges: r} }
func NClass(r ...ref.Range) *E { return &E{K: ref.KClass, Ranges: r, Neg: true} }
func IClass(r ...ref.Range) *E { return &E{K: ref.KClass, Ranges: r, Fold: true} }
func R(lo, hi rune) ref.Range  { return ref.Range{Lo: lo, Hi: hi} }
func C(c rune) ref.Range       { return ref.Range{Lo: c, Hi: c} }

func Clone(e *E) *E {
	if e == nil {
		return nil
	}
	c := *e
	c.Kids = make([]*E, len(e.Kids))
	for i, k := range e.Kids {
		c.Kids[i] = Clone(k)
	}
	c.Lit = append([]rune(nil), e.Lit...)
	c.Ranges = append([]ref.Range(nil), e.Ranges...)
	return &c
}

// Grammar is a family member.
type Grammar struct {
	G      *ref.Grammar
	Tag    string // where it came from (layer / shape name)
	NSw    int    // number of predicate switches used
	NAct   int
	HasCap bool

	// long-input layer (Long()): the concrete filler cycle, the largest length the grammar is
	// run at (0: none) and whether the number of tokens is independent of the input length
	Filler  string
	LongMax int
	Flat    bool

	// emission style (Emission()): how the grammar is written down, not what it means.
	// 1: block comments inside actions and predicates; 2: header comments and user imports
	// (a package the runtime imports too, an aliased one, grouped), used by the actions.
	Style int
}

var ruleNames = []string{"S", "A", "B", "D", "F", "G", "H", "J"}

// New builds a grammar from rule bodies (rule i is named ruleNames[i]); numbers the actions in
// textual order and counts switches.
func New(tag string, bodies ...*E) *Grammar {
	g := &Grammar{G: &ref.Grammar{}, Tag: tag}
	for i, b := range bodies {
		name := "R" + strconv.Itoa(i)
		if i < len(ruleNames) {
			name = ruleNames[i]
		}
		g.G.Rules = append(g.G.Rules, ref.Rule{Name: name, E: b})
	}
	for _, r := range g.G.Rules {
		walk(r.E, func(e *E) {
			switch e.K {
			case ref.KAct:
				e.Idx = g.NAct
				g.NAct++
			case ref.KPred:
				if e.Idx+1 > g.NSw {
					g.NSw = e.Idx + 1
				}
			case ref.KCap:
				g.HasCap = true
			}
		})
	}
	return g
}

func walk(e *E, f func(*E)) {
	f(e)
	for _, k := range e.Kids {
		walk(k, f)
	}
}

// ---- well-formedness (independent of peg's own analysis) ----

type wf struct {
	g        *ref.Grammar
	nullable []bool
}

func (w *wf) null(e *E) bool {
	switch e.K {
	case ref.KEmpty, ref.KAct, ref.KPred, ref.KState, ref.KAnd, ref.KNot, ref.KOpt, ref.KStar:
		return true
	case ref.KLit:
		return len(e.Lit) == 0
	case ref.KClass, ref.KDot:
		return false
	case ref.KSeq:
		for _, k := range e.Kids {
			if !w.null(k) {
				return false
			}
		}
		return true
	case ref.KAlt:
		for _, k := range e.Kids {
			if w.null(k) {
				return true
			}
		}
		return false
	case ref.KPlus, ref.KCap:
		return w.null(e.Kids[0])
	case ref.KRef:
		return w.nullable[e.Rule]
	}
	panic("wf.null")
}

// left collects the rules referenced in left position of e.
func (w *wf) left(e *E, out map[int]bool) {
	switch e.K {
	case ref.KSeq:
		for _, k := range e.Kids {
			w.left(k, out)
			if !w.null(k) {
				return
			}
		}
	case ref.KRef:
		out[e.Rule] = true
	default:
		for _, k := range e.Kids {
			w.left(k, out)
		}
	}
}

// WellFormed reports whether g satisfies the precondition of the parser properties; it also
// requires every rule to be reachable from the first and no rule body to be empty (peg treats
// an empty body as "not defined").
func WellFormed(g *ref.Grammar) bool {
	w := &wf{g: g, nullable: make([]bool, len(g.Rules))}
	for changed := true; changed; {
		changed = false
		for i, r := range g.Rules {
			if !w.nullable[i] && w.null(r.E) {
				w.nullable[i] = true
				changed = true
			}
		}
	}
	// left recursion
	lefts := make([]map[int]bool, len(g.Rules))
	for i, r := range g.Rules {
		lefts[i] = map[int]bool{}
		w.left(r.E, lefts[i])
	}
	for i := range g.Rules {
		seen := map[int]bool{}
		stack := []int{i}
		for len(stack) > 0 {
			x := stack[len(stack)-1]
			stack = stack[:len(stack)-1]
			for y := range lefts[x] {
				if y == i {
					return false
				}
				if !seen[y] {
					seen[y] = true
					stack = append(stack, y)
				}
			}
		}
	}
	ok := true
	reach := map[int]bool{0: true}
	var visit func(e *E)
	visit = func(e *E) {
		switch e.K {
		case ref.KStar, ref.KPlus:
			if w.null(e.Kids[0]) {
				ok = false
			}
		case ref.KRef:
			if !reach[e.Rule] {
				reach[e.Rule] = true
				visit(g.Rules[e.Rule].E)
			}
		case ref.KLit:
			if len(e.Lit) == 0 {
				ok = false
			}
		case ref.KSeq, ref.KAlt:
			if len(e.Kids) < 2 {
				ok = false
			}
			for i, k := range e.Kids {
				// the empty expression is only expressible as a trailing empty alternative
				if k.K == ref.KEmpty && !(e.K == ref.KAlt && i == len(e.Kids)-1) {
					ok = false
				}
			}
		case ref.KOpt, ref.KAnd, ref.KNot, ref.KCap:
			if e.Kids[0].K == ref.KEmpty {
				ok = false
			}
		}
		for _, k := range e.Kids {
			visit(k)
		}
	}
	visit(g.Rules[0].E)
	for i, r := range g.Rules {
		if !reach[i] || r.E.K == ref.KEmpty {
			return false
		}
	}
	return ok
}

// ---- .peg text ----

func escChar(c rune, inClass bool) string {
	switch c {
	case '\\':
		return `\\`
	case '\'':
		return `\'`
	case '"':
		return `\"`
	case '[':
		return `\[`
	case ']':
		return `\]`
	case '-':
		if inClass {
			return `\-`
		}
		return "-"
	case '\n':
		return `\n`
	case '\r':
		return `\r`
	case '\t':
		return `\t`
	case '^':
		if inClass {
			return `\0x5E`
		}
		return "^"
	}
	if c < 0x20 || c == 0x7f || c > 0xFFFF || c == 0xFFFD {
		return fmt.Sprintf(`\0x%X`, c)
	}
	return string(c)
}

// levels: 0 alternation, 1 sequence, 2 prefix, 3 suffix, 4 primary
func pegExpr(g *ref.Grammar, e *E, need int, actText func(k int) string) string {
	paren := func(s string, level int) string {
		if level < need {
			return "(" + s + ")"
		}
		return s
	}
	switch e.K {
	case ref.KEmpty:
		return ""
	case ref.KLit:
		var b strings.Builder
		q := "'"
		if e.Fold {
			q = `"`
		}
		b.WriteString(q)
		for _, c := range e.Lit {
			b.WriteString(escChar(c, false))
		}
		b.WriteString(q)
		return b.String()
	case ref.KClass:
		var b strings.Builder
		open, cl := "[", "]"
		if e.Fold {
			open, cl = "[[", "]]"
		}
		b.WriteString(open)
		if e.Neg {
			b.WriteString("^")
		}
		for _, r := range e.Ranges {
			if r.Lo == r.Hi {
				b.WriteString(escChar(r.Lo, true))
			} else {
				b.WriteString(escChar(r.Lo, true) + "-" + escChar(r.Hi, true))
			}
		}
		b.WriteString(cl)
		return b.String()
	case ref.KDot:
		return "."
	case ref.KSeq:
		parts := make([]string, len(e.Kids))
		for i, k := range e.Kids {
			parts[i] = pegExpr(g, k, 2, actText)
		}
		return paren(strings.Join(parts, " "), 1)
	case ref.KAlt:
		parts := make([]string, len(e.Kids))
		for i, k := range e.Kids {
			parts[i] = pegExpr(g, k, 1, actText)
		}
		s := strings.Join(parts, " / ")
		if e.Kids[len(e.Kids)-1].K == ref.KEmpty {
			s = strings.TrimRight(s, " ") + " "
		}
		return paren(s, 0)
	case ref.KOpt:
		return paren(pegExpr(g, e.Kids[0], 4, actText)+"?", 3)
	case ref.KStar:
		return paren(pegExpr(g, e.Kids[0], 4, actText)+"*", 3)
	case ref.KPlus:
		return paren(pegExpr(g, e.Kids[0], 4, actText)+"+", 3)
	case ref.KAnd, ref.KNot:
		op := "&"
		if e.K == ref.KNot {
			op = "!"
		}
		kid := pegExpr(g, e.Kids[0], 3, actText)
		if strings.HasPrefix(kid, "{") {
			kid = "(" + kid + ")" // &{...} would be read as a semantic predicate
		}
		return paren(op+kid, 2)
	case ref.KCap:
		return "<" + pegExpr(g, e.Kids[0], 0, actText) + ">"
	case ref.KRef:
		return g.Rules[e.Rule].Name
	case ref.KAct:
		return "{ " + actText(e.Idx) + " }"
	case ref.KPred:
		return paren(fmt.Sprintf("&{ p.Sw[%d] }", e.Idx), 2)
	case ref.KState:
		return paren("!{ p.N++ }", 2)
	}
	panic("pegExpr")
}

// suffix operands must be primaries: wrap non-primary operands in parentheses
func init() {}

// PegText renders the grammar in .peg syntax. noast selects the action text that only reads
// `text` (begin/end do not exist in -noast parsers).
func (g *Grammar) PegText(pkg string, noast bool) string {
	act := func(k int) string {
		if noast {
			return fmt.Sprintf("p.Tr = append(p.Tr, ref.Ev{K: %d, Text: text})", k)
		}
		return fmt.Sprintf("p.Tr = append(p.Tr, ref.Ev{K: %d, B: begin, E: end, Text: text})", k)
	}
	var b strings.Builder
	switch g.Style {
	case 2:
		fmt.Fprintf(&b, "# generated by the verification family\n// second header comment\npackage %s\n\nimport \"vhlib/ref\"\nimport \"fmt\"\nimport (\n\tstr \"strings\"\n\t\"os\"\n)\n\ntype T Peg {\n Tr []ref.Ev\n Sw [2]bool\n N int\n}\n\n", pkg)
	default:
		fmt.Fprintf(&b, "package %s\n\nimport \"vhlib/ref\"\n\ntype T Peg {\n Tr []ref.Ev\n Sw [2]bool\n N int\n}\n\n", pkg)
	}
	for _, r := range g.G.Rules {
		body := pegExpr(g.G, r.E, 0, act)
		switch g.Style {
		case 1:
			body = strings.ReplaceAll(body, "{ p.Tr = ", "{ /* action */ p.Tr = ")
			body = strings.ReplaceAll(body, "&{ p.Sw[", "&{ /* predicate */ p.Sw[")
		case 2:
			body = strings.ReplaceAll(body, "Text: text}) }", "Text: text}); if p.N < 0 { fmt.Fprint(os.Stderr, str.ToUpper(text)) } }")
		}
		fmt.Fprintf(&b, "%s <- %s\n", r.Name, body)
	}
	return b.String()
}

// Key is a canonical string of the grammar (for deduplication and hashing).
func (g *Grammar) Key() string {
	return g.PegText("p", false)
}

func (g *Grammar) Hash() string {
	h := sha256.Sum256([]byte(g.Key()))
	return fmt.Sprintf("%x", h[:6])
}

// ---- Go literal for the harness ----

func goExpr(e *E, b *strings.Builder) {
	b.WriteString("&ref.Expr{K: ")
	fmt.Fprintf(b, "%d", int(e.K))
	if len(e.Lit) > 0 {
		b.WriteString(", Lit: []rune{")
		for _, c := range e.Lit {
			fmt.Fprintf(b, "%d,", c)
		}
		b.WriteString("}")
	}
	if e.Fold {
		b.WriteString(", Fold: true")
	}
	if e.Neg {
		b.WriteString(", Neg: true")
	}
	if len(e.Ranges) > 0 {
		b.WriteString(", Ranges: []ref.Range{")
		for _, r := range e.Ranges {
			fmt.Fprintf(b, "{%d,%d},", r.Lo, r.Hi)
		}
		b.WriteString("}")
	}
	if e.K == ref.KRef {
		fmt.Fprintf(b, ", Rule: %d", e.Rule)
	}
	if e.K == ref.KAct || e.K == ref.KPred {
		fmt.Fprintf(b, ", Idx: %d", e.Idx)
	}
	if len(e.Kids) > 0 {
		b.WriteString(", Kids: []*ref.Expr{")
		for _, k := range e.Kids {
			goExpr(k, b)
			b.WriteString(",")
		}
		b.WriteString("}")
	}
	b.WriteString("}")
}

func (g *Grammar) GoLiteral() string {
	var b strings.Builder
	b.WriteString("&ref.Grammar{Rules: []ref.Rule{\n")
	for _, r := range g.G.Rules {
		fmt.Fprintf(&b, "\t{Name: %q, E: ", r.Name)
		goExpr(r.E, &b)
		b.WriteString("},\n")
	}
	b.WriteString("}}")
	return b.String()
}

// Dedup removes duplicates (by text) and ill-formed grammars; keeps order.
func Dedup(gs []*Grammar) []*Grammar {
	seen := map[string]bool{}
	var out []*Grammar
	for _, g := range gs {
		if !WellFormed(g.G) {
			continue
		}
		k := g.Key()
		if seen[k] {
			continue
		}
		seen[k] = true
		out = append(out, g)
	}
	return out
}

// Classes estimates the number of distinguishable rune classes per position (path growth).
func (g *Grammar) Classes() int {
	pts := map[rune]bool{}
	dot := false
	for _, r := range g.G.Rules {
		walk(r.E, func(e *E) {
			switch e.K {
			case ref.KLit:
				for _, c := range e.Lit {
					pts[c] = true
					if e.Fold {
						pts[c^0x20] = true
					}
				}
			case ref.KClass:
				for _, rg := range e.Ranges {
					pts[rg.Lo] = true
					pts[rg.Hi+1] = true
				}
			case ref.KDot:
				dot = true
			}
		})
	}
	_ = dot
	return len(pts) + 1
}

func sortedRunes(m map[rune]bool) []rune {
	var out []rune
	for r := range m {
		out = append(out, r)
	}
	sort.Slice(out, func(i, j int) bool { return out[i] < out[j] })
	return out
}

// Digest is a short hash over the (sorted) grammar hashes of a family.
func Digest(hashes []string) string {
	h := sha256.Sum256([]byte(strings.Join(hashes, ",")))
	return fmt.Sprintf("%x", h[:8])
}

// MaxAlts is the largest number of alternatives of any ordered choice in the grammar.
func (g *Grammar) MaxAlts() int {
	m := 0
	for _, r := range g.G.Rules {
		walk(r.E, func(e *E) {
			if e.K == ref.KAlt && len(e.Kids) > m {
				m = len(e.Kids)
			}
		})
	}
	return m
}
