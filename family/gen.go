package family

import (
	"fmt"
	"math/rand"

	"vhlib/ref"
)

// ---- layer (i): bounded-exhaustive structures over a small leaf set ----

func leaves() []*E {
	return []*E{Lit("a"), Lit("b"), Dot(), Act(), Pred(0)}
}

// exprsOfSize enumerates expressions with exactly n nodes.
func exprsOfSize(n int, memo map[int][]*E) []*E {
	if v, ok := memo[n]; ok {
		return v
	}
	var out []*E
	if n == 1 {
		out = leaves()
		memo[n] = out
		return out
	}
	// unary operators
	for _, k := range exprsOfSize(n-1, memo) {
		out = append(out, Opt(Clone(k)), Star(Clone(k)), Plus(Clone(k)), And(Clone(k)), Not(Clone(k)), Cap(Clone(k)))
	}
	// binary sequence / choice, and choice with a trailing empty alternative
	for a := 1; a <= n-2; a++ {
		b := n - 1 - a
		for _, x := range exprsOfSize(a, memo) {
			for _, y := range exprsOfSize(b, memo) {
				out = append(out, Seq(Clone(x), Clone(y)), Alt(Clone(x), Clone(y)))
			}
		}
	}
	if n >= 2 {
		for _, x := range exprsOfSize(n-1, memo) {
			out = append(out, Alt(Clone(x), Empty()))
		}
	}
	// ternary choice
	if n >= 4 {
		for a := 1; a <= n-3; a++ {
			for b := 1; a+b <= n-2; b++ {
				c := n - 1 - a - b
				if c < 1 {
					continue
				}
				for _, x := range exprsOfSize(a, memo) {
					for _, y := range exprsOfSize(b, memo) {
						for _, z := range exprsOfSize(c, memo) {
							out = append(out, Alt(Clone(x), Clone(y), Clone(z)))
						}
					}
				}
			}
		}
	}
	memo[n] = out
	return out
}

// Basis returns single-rule grammars `S <- e` (and `S <- e !.`) for all e up to the given size.
func Basis(maxSize int) []*Grammar {
	memo := map[int][]*E{}
	var gs []*Grammar
	for n := 1; n <= maxSize; n++ {
		for i, e := range exprsOfSize(n, memo) {
			gs = append(gs, New(fmt.Sprintf("basis/size%d/%d", n, i), Clone(e)))
		}
	}
	return gs
}

// ---- layer (ii): every terminal kind in fixed contexts ----

func Terminals() []*E {
	return []*E{
		Lit("a"), Lit("ab"), Lit("aba"), ILit("c"), ILit("a1b"),
		Class(R('a', 'c')), NClass(C('b')), IClass(R('x', 'y')), Class(R('a', 'c'), C('x')), NClass(R('a', 'c'), C('x')),
		IClass(C('q'), R('0', '1')), Dot(), State(), Pred(0),
		Lit("\n"), Lit("é"), Lit("\U0010FFFF"), Class(R(0, 'a')), Class(R('z', 0x10FFFF)), Lit("'\"\\"), Class(C(']'), C('-'), C('\\')),
		Lit("�"), Lit("\x00"), Class(R(0xD7FF, 0xE000)),
	}
}

// contexts: functions placing a terminal t into a surrounding expression.
func contexts() []func(t *E) *E {
	a, b := func() *E { return Lit("a") }, func() *E { return Lit("b") }
	return []func(t *E) *E{
		func(t *E) *E { return t },
		func(t *E) *E { return Seq(t, a()) },
		func(t *E) *E { return Seq(a(), t) },
		func(t *E) *E { return Seq(a(), t, b()) },
		func(t *E) *E { return Alt(t, a(), b()) },
		func(t *E) *E { return Alt(a(), t, b()) },
		func(t *E) *E { return Alt(a(), b(), t) },
		func(t *E) *E { return Alt(Seq(t, a()), Seq(t, b())) },
		func(t *E) *E { return Seq(Opt(t), a()) },
		func(t *E) *E { return Seq(Star(t), a()) },
		func(t *E) *E { return Seq(Plus(t), b()) },
		func(t *E) *E { return Seq(And(t), Dot()) },
		func(t *E) *E { return Seq(Not(t), Dot()) },
		func(t *E) *E { return Seq(Cap(t), Act()) },
		func(t *E) *E { return Seq(Cap(Star(t)), Act(), a()) },
		func(t *E) *E { return Seq(Star(Seq(t, a())), Not(Dot())) },
		func(t *E) *E { return Alt(Seq(a(), t), Seq(a(), b()), Empty()) },
		func(t *E) *E { return Seq(Alt(t, a()), Alt(b(), t)) },
	}
}

func nullableLeaf(t *E) bool { return t.K == ref.KState || t.K == ref.KPred }

func TerminalLayer() []*Grammar {
	var gs []*Grammar
	for ti, t := range Terminals() {
		for ci, c := range contexts() {
			gs = append(gs, New(fmt.Sprintf("terminal/%d/ctx%d", ti, ci), c(Clone(t))))
		}
	}
	return gs
}

// EndLookahead: every terminal under & and ! at a place where the input may end (a lookahead's
// verdict at end of input is only visible when nothing after it fails anyway).
func EndLookahead() []*Grammar {
	var gs []*Grammar
	for ti, t := range Terminals() {
		if nullableLeaf(t) {
			continue
		}
		gs = append(gs, New(fmt.Sprintf("endlook/%d/and", ti), Seq(Lit("a"), And(Clone(t)))))
		gs = append(gs, New(fmt.Sprintf("endlook/%d/not", ti), Seq(Lit("a"), Not(Clone(t)))))
		gs = append(gs, New(fmt.Sprintf("endlook/%d/star-not", ti), Seq(Star(Lit("a")), Not(Clone(t)), Opt(Lit("b")))))
	}
	return gs
}

// LookaheadSwitched: a lookahead whose operand is a choice that -switch turns into a switch, with
// actions, captures or rule references in its alternatives: whatever the operand recorded must
// be gone after the lookahead, under every option set (added in seeding round 7; part of the
// families of C02, C04 and C11, the checks whose quick tier was re-run with them).
func LookaheadSwitched() []*Grammar {
	a, b, c, x := func() *E { return Lit("a") }, func() *E { return Lit("b") }, func() *E { return Lit("c") }, func() *E { return Lit("x") }
	var gs []*Grammar
	add := func(tag string, bodies ...*E) { gs = append(gs, New("shape/"+tag, bodies...)) }
	add("and-over-switched-choice-actions", Seq(Plus(Seq(And(Alt(Seq(a(), Act()), Seq(b(), Act()), Seq(c(), Act()))), Cap(Dot()), Act())), Not(Dot())))
	add("and-over-switched-choice-captures", Seq(Cap(Opt(x())), And(Alt(Cap(a()), Cap(b()), Cap(c()))), Act(), Dot(), Opt(x())))
	add("and-over-switched-choice-rules", Seq(Plus(Seq(And(Alt(Ref(1), Ref(2), Ref(3))), Dot())), Opt(x()), Not(Dot())), a(), b(), Seq(c(), Opt(x())))
	add("not-over-switched-choice-rules", Seq(Star(Seq(Not(Alt(Seq(Ref(1), x()), Seq(Ref(2), x()), Seq(Ref(3), x()))), Dot())), Opt(x()), Not(Dot())), a(), b(), Seq(Cap(c()), Act()))
	return gs
}

// ---- curated shapes named in the properties ----

func Shapes() []*Grammar {
	a, b, c, x := func() *E { return Lit("a") }, func() *E { return Lit("b") }, func() *E { return Lit("c") }, func() *E { return Lit("x") }
	var gs []*Grammar
	add := func(tag string, bodies ...*E) { gs = append(gs, New("shape/"+tag, bodies...)) }

	// alternatives sharing prefixes; a rule re-entered at the same offset (memo hits)
	add("shared-prefix", Seq(Alt(Seq(Ref(1), x()), Seq(Ref(1), b()), Ref(1)), Not(Dot())), Plus(a()))
	add("shared-prefix-cap", Alt(Seq(Ref(1), x(), Act()), Seq(Ref(1), Lit("y"), Act()), Seq(Ref(1), Act())), Seq(Cap(Plus(a())), Act()))
	add("lookahead-then-consume", Seq(And(Ref(1)), Ref(1), Opt(b())), Seq(a(), Opt(a())))
	add("fail-then-succeed", Alt(Seq(Ref(1), Ref(2), x()), Seq(Ref(1), Ref(2))), Star(a()), Opt(b()))
	add("memo-different-rule-same-slot", Seq(Lit("p"), Alt(Seq(Ref(1), x()), Seq(Ref(2), Lit("y")), Seq(Ref(1), Lit("z")))),
		Seq(Ref(3), Ref(4)), Seq(Lit("ab"), Act()), a(), b())
	// nested captures, captures and actions in failing branches and lookahead
	add("nested-capture", Seq(Cap(Seq(a(), Cap(Opt(b())), Act())), Act(), Opt(c())))
	add("action-in-failing-alt", Alt(Seq(a(), Act(), b()), Seq(a(), Act(), c()), Seq(Act(), a())))
	add("capture-in-lookahead", Seq(And(Seq(Cap(a()), Act())), Cap(Dot()), Act()))
	// a capture over terminals only inside a lookahead (no action, no rule inside the operand):
	// its token must be gone when the next action reads text
	add("capture-only-in-and", Seq(Cap(a()), And(Cap(b())), Act(), Opt(b()), Cap(Opt(c())), Act()))
	add("capture-only-in-not", Seq(Cap(a()), Not(Seq(Cap(Lit("-")), Class(R('0', '9')))), Act(), Opt(Lit("-")), Opt(x())))
	add("capture-only-in-and-failing", Alt(Seq(Cap(a()), And(Seq(Cap(b()), c())), Act(), b(), c()), Seq(Cap(a()), Act(), Dot())))
	// the body of ? * + starts with a lookahead over a rule (which records a token) and more; the
	// lookahead fails part-way, the body is abandoned, the token must be gone
	for _, rep := range []struct {
		name string
		op   func(*E) *E
	}{{"opt", Opt}, {"star", Star}, {"plus", Plus}} {
		body := Seq(And(Seq(Ref(1), Lit(":"))), Plus(Class(R('a', 'b'))), Lit(":"))
		tail := Seq(Ref(1), Not(Dot()))
		if rep.name == "plus" {
			add("rep-body-starts-with-and-"+rep.name, Alt(Seq(rep.op(body), tail), tail), Plus(Class(R('a', 'b'))))
		} else {
			add("rep-body-starts-with-and-"+rep.name, Seq(rep.op(body), tail), Plus(Class(R('a', 'b'))))
		}
	}
	add("rep-body-starts-with-not", Seq(Star(Seq(Not(Seq(Ref(1), Lit(";"))), Ref(1), Lit(","))), Opt(Ref(1)), Opt(Lit(";")), Not(Dot())), Seq(Cap(Class(R('a', 'b'))), Act()))
	add("not-with-tokens", Seq(Not(Seq(Ref(1), Lit(":"))), Ref(1), Opt(Lit(":"))), Seq(Cap(Plus(Class(R('a', 'b')))), Act()))
	add("abandoned-iteration", Seq(Star(Seq(Ref(1), Lit(","))), Ref(1)), Seq(Cap(a()), Act()))
	add("zero-width-capture", Seq(a(), Cap(Opt(b())), Act(), Cap(Empty2()), Act()))
	// choice shapes for the optimiser
	add("choice-disjoint", Alt(Seq(a(), x()), Seq(b(), x()), Seq(c(), x()), Lit("d")))
	add("choice-overlap", Alt(Seq(Class(R('a', 'c')), x()), Seq(Class(R('b', 'd')), Lit("y")), Lit("e")))
	add("choice-nullable-middle", Seq(Alt(b(), Opt(a()), c()), x()))
	add("choice-nullable-nested", Alt(Seq(Alt(Opt(a()), b()), c()), Seq(c(), Lit("d")), Lit("e")))
	add("choice-star-first", Alt(Seq(Star(Class(R('0', '9'))), Lit(".")), x(), Class(R('A', 'Z'))))
	add("choice-lookahead-first", Alt(Seq(And(a()), Dot(), x()), Seq(Not(b()), c()), Lit("d"), b()))
	add("choice-nested", Alt(Alt(Seq(a(), b()), c()), Seq(Lit("d"), Alt(a(), Lit("e"))), Lit("f")))
	add("choice-via-rules", Alt(Ref(1), Ref(2), Ref(3)), Seq(a(), x()), Seq(Class(R('b', 'c')), x()), Seq(Lit("d"), Opt(x())))
	add("choice-via-shared-rule", Seq(Alt(Ref(1), Seq(Lit("z"), Lit("q")), Lit("0")), Not(Dot())),
		Alt(Seq(Class(R('a', 'c')), x()), Seq(Class(R('x', 'z')), x()), Seq(Class(R('b', 'y')), x())))
	add("choice-multikey-range", Seq(Alt(Seq(Ref(1), Lit(";")), Plus(Class(R('A', 'Z'), R('0', '9'))), Lit(" ")), Not(Dot())),
		Alt(Seq(Lit("_"), Class(R('a', 'z'))), Seq(Class(R('a', 'z')), Class(R('0', '9')))))
	add("choice-range-in-case", Alt(Seq(Star(Class(R('a', 'b'))), x()), Lit("y"), Lit("z")))
	add("choice-dot-default", Alt(Seq(a(), b()), Seq(c(), Lit("d")), Seq(Dot(), Lit("e"))))
	add("choice-empty-alt", Seq(Alt(a(), b(), c(), Empty()), x()))
	add("choice-ilit", Alt(Seq(ILit("a"), x()), Seq(ILit("b"), x()), Seq(Class(R('0', '9')), x())))
	add("choice-negclass", Alt(Seq(NClass(R('a', 'y')), x()), Seq(a(), Lit("y")), Seq(b(), Lit("z"))))
	// repetition as the first element of a switch case (later iterations must still test)
	add("choice-star-seq-in-case", Seq(Alt(Seq(Star(Seq(a(), b())), a(), c()), Lit("d"), Class(R('x', 'z'))), Not(Dot())))
	add("choice-plus-seq-in-case", Seq(Alt(Seq(Plus(Seq(Lit("-"), Lit(">"))), Class(R('0', '9'))), Class(R('0', '9')), Seq(Lit("("), Class(R('0', '9')), Lit(")"))), Not(Dot())))
	add("choice-opt-seq-in-case", Seq(Alt(Seq(Opt(Seq(a(), b())), a(), c()), Lit("d"), Class(R('x', 'z'))), Not(Dot())))
	// a loop whose body is a choice that -switch turns into a switch; an iteration that recorded
	// a token is abandoned (the loop's backtrack point must restore the token index too)
	add("loop-over-switched-choice", Seq(Star(Alt(Seq(Ref(1), Lit(",")), Seq(Ref(2), Lit(",")), Seq(Ref(3), Lit(";")))), Opt(Ref(1)), Not(Dot())),
		Plus(a()), b(), Lit("d"))
	add("opt-over-switched-choice", Seq(Opt(Alt(Seq(Ref(1), Lit(",")), Seq(Ref(2), Lit(",")), Seq(Cap(Lit("d")), Act(), Lit(";")))), Opt(Ref(1)), Opt(Lit("d")), Not(Dot())),
		Plus(a()), b())
	add("plus-over-switched-choice", Seq(Plus(Alt(Seq(Ref(1), Lit(",")), Seq(Ref(2), Lit(",")), Seq(Lit("d"), Lit(";")))), Opt(Ref(1)), Not(Dot())),
		Plus(a()), b())
	// first sets of mutually dependent rules (a rule consulted while it is still being analysed)
	add("choice-recursive-first-sets", Seq(Ref(1), Not(Dot())), Alt(Seq(x(), Ref(2)), Lit("y")), Alt(Seq(Ref(1), Lit("q"), Ref(3)), Lit("k")),
		Alt(Seq(Ref(2), Lit("r")), Seq(x(), Lit("r")), Class(R('m', 'p'))))
	add("choice-union-order", Seq(Alt(Seq(Ref(1), Lit(";")), Seq(Lit("j"), Lit("!")), Class(R('0', '9'))), Not(Dot())),
		Seq(Alt(b(), Class(R('e', 'k')), Class(R('a', 'g'))), Star(Class(R('a', 'z')))))
	// guarded recursion
	add("paren-recursion", Seq(Ref(1), Not(Dot())), Alt(Seq(Lit("("), Ref(1), Lit(")")), x()))
	add("right-recursion-empty", Seq(Ref(1), Not(Dot())), Alt(Seq(a(), Ref(1)), Empty()))
	add("always-succeeds-call", Seq(Ref(1), Ref(2), Not(Dot())), Star(a()), Alt(Seq(b(), Ref(1)), Empty()))
	add("same-rule-twice", Seq(Ref(1), Lit("+"), Ref(1), Not(Dot())), Alt(Seq(Ref(2), Lit("("), Lit(")")), Ref(2)), Plus(Class(R('a', 'b'))))
	// literals under repetition (half-matched literal)
	add("literal-under-opt", Seq(Opt(Lit("ab")), Alt(Lit("ac"), a()), Not(Dot())))
	add("literal-under-star", Seq(Star(Lit("ab")), Opt(a()), Not(Dot())))
	add("literal-under-plus", Seq(Plus(Lit("aa")), Lit("ab")))
	add("rule-under-plus-partial", Seq(Plus(Ref(1)), Opt(Ref(2)), Lit(";"), Not(Dot())), Seq(Class(R('a', 'b')), Lit("="), Class(R('0', '1'))), Class(R('a', 'b')))
	add("rule-under-opt-partial", Seq(Opt(Ref(1)), Opt(Ref(2)), Lit(";"), Not(Dot())), Seq(Class(R('a', 'b')), Lit("="), Class(R('0', '1'))), Class(R('a', 'b')))
	add("rule-under-plus-partial-2", Seq(Plus(Ref(1)), a(), c()), Seq(a(), b()))
	add("rule-under-star-partial", Seq(Star(Ref(1)), Opt(Ref(2)), Lit(";"), Not(Dot())), Seq(Class(R('a', 'b')), Lit("="), Class(R('0', '1'))), Class(R('a', 'b')))
	// a switch case with several keys whose body starts with each kind of operator (the case's
	// first element must still test which of the keys it is looking at); another alternative has
	// the largest first set and becomes the default branch
	hk := func() *E { return Class(C('#'), R('A', 'C')) }
	heads := []struct {
		name string
		e    *E
		rule *E
	}{
		{"opt", Seq(Opt(Lit("#")), Plus(Class(R('A', 'C')))), nil},
		{"star", Seq(Star(Lit("#")), Class(R('A', 'C'))), nil},
		{"plus", Seq(Plus(hk()), Lit("!")), nil},
		{"and", Seq(And(hk()), Dot(), Lit("!")), nil},
		{"cap", Seq(Cap(hk()), Act(), Lit("!")), nil},
		{"nested-choice", Seq(Alt(Lit("#"), Class(R('A', 'C'))), Lit("!")), nil},
		{"ilit", Seq(ILit("k"), Opt(Lit("!"))), nil},
		{"opt-rule", Seq(Opt(Ref(1)), Plus(Class(R('A', 'C')))), Lit("#")},
		{"star-rule", Seq(Star(Ref(1)), Class(R('A', 'C'))), Lit("#")},
		{"plus-rule", Seq(Plus(Ref(1)), Lit("!")), hk()},
		{"opt-rule-twice", Seq(Opt(Ref(1)), Plus(Class(R('A', 'C'))), Opt(Ref(1))), Lit("#")},
	}
	for _, h := range heads {
		body := Seq(Alt(h.e, Seq(Lit("("), Lit(")")), Plus(Class(R('a', 'z'))), Class(R('0', '9'))), Not(Dot()))
		if h.rule != nil {
			add("multikey-head-"+h.name, body, h.rule)
		} else {
			add("multikey-head-"+h.name, body)
		}
	}
	// predicates and state changes
	add("predicate-guard", Alt(Seq(Pred(0), a()), Seq(Pred(1), b()), c()))
	add("state-change", Seq(State(), Star(Seq(a(), State())), Not(Dot())))
	// multi-line / multi-byte input oriented
	add("lines", Seq(Star(Ref(1)), Not(Dot())), Seq(Star(NClass(C('\n'))), Lit("\n")))
	add("multibyte", Seq(Star(Alt(Lit("é"), Class(R(0x4E00, 0x9FFF)), Lit("\U0001F600"), a())), Not(Dot())))
	add("keyword-guard", Seq(Plus(Seq(Ref(1), Opt(Lit(" ")))), Not(Dot())), Seq(Not(Ref(2)), Cap(Plus(Class(R('a', 'c')))), Act()), Seq(Lit("ab"), Not(Class(R('a', 'c')))))
	return gs
}

// Emission is a small layer about how a grammar is written down rather than what it means:
// block comments inside actions and predicates, header comments, user imports that duplicate a
// package the generated code imports itself, an aliased and a grouped import. The parsers must
// still build and behave like the reference (the emitted text as such is C08's subject, which
// no check here decides; a parser that does not build recognises nothing, which is C01's).
func Emission() []*Grammar {
	a, b := func() *E { return Lit("a") }, func() *E { return Lit("b") }
	var gs []*Grammar
	for style := 1; style <= 2; style++ {
		g := New(fmt.Sprintf("emit/style%d", style), Seq(Cap(Plus(a())), Act(), Alt(Seq(Pred(0), b(), Act()), Seq(Not(Dot()), Act()))))
		g.Style = style
		gs = append(gs, g)
		g2 := New(fmt.Sprintf("emit/style%d-rules", style), Seq(Ref(1), Opt(Ref(2)), Not(Dot())), Seq(Cap(a()), Act()), Seq(Pred(0), Cap(Lit("\x01")), Act(), Class(C('\t'), C(0x7f))))
		g2.Style = style
		gs = append(gs, g2)
	}
	return gs
}

// Long is the long-input layer: grammars with loops and recursion, each with a concrete filler
// cycle that keeps the parse going, so that inputs of hundreds to 2^16 runes (all concrete but
// two arbitrary "hole" runes) reach wide trees, deep nesting, many memo entries and offsets
// beyond the range of a narrow integer instantiation.
func Long() []*Grammar {
	a, b, x := func() *E { return Lit("a") }, func() *E { return Lit("b") }, func() *E { return Lit("x") }
	var gs []*Grammar
	add := func(tag, filler string, max int, flat bool, bodies ...*E) {
		g := New("long/"+tag, bodies...)
		g.Filler, g.LongMax, g.Flat = filler, max, flat
		gs = append(gs, g)
	}
	eof := func() *E { return Not(Dot()) }
	add("star-lit", "a", 70000, true, Seq(Star(a()), eof()))
	add("until", "a", 70000, true, Seq(Star(Seq(Not(b()), Dot())), Opt(Seq(b(), Star(Dot()))), eof()))
	add("class-plus-multibyte", "a\u00e9\u20ac\U0001F600", 70000, true, Seq(Cap(Plus(NClass(C('x')))), Opt(x()), eof()))
	add("wide", "ab", 1000, false, Seq(Star(Ref(1)), eof()), Alt(a(), b()))
	add("wide-multibyte", "a\u00e9\u20ac\U0001F600", 1000, false, Seq(Star(Ref(1)), eof()), Cap(NClass(C('x'))))
	add("memo-groups", "aax", 1000, false, Seq(Star(Alt(Seq(Ref(1), x()), Seq(Ref(1), Lit("y")))), eof()), Plus(a()))
	add("nest", "a", 300, false, Alt(Seq(a(), Ref(0)), b()))
	add("nest-tail", "a", 300, false, Seq(Ref(1), eof()), Alt(Seq(a(), Ref(1), Opt(x())), b()))
	add("cap-act", "ab ", 1000, false, Seq(Star(Seq(Cap(Plus(Class(R('a', 'c')))), Act(), Opt(Lit(" ")))), eof()))
	add("choice-loop", "abcd", 1000, false, Seq(Star(Alt(Seq(a(), Ref(1)), Seq(Class(R('b', 'c')), Act()), Lit("d"))), eof()), Seq(b(), Act()))
	// more rules than fit one byte: rule numbers 256.. appear in tokens, memo keys and the rule
	// table; the chain is walked to its end by an input of 259 'a' and one 'b'
	chain := make([]*E, 260)
	for i := range chain {
		if i < len(chain)-1 {
			chain[i] = Alt(Seq(a(), Ref(i+1)), b())
		} else {
			chain[i] = b()
		}
	}
	add("many-rules", "a", 300, false, chain...)
	return gs
}

// Empty2 is an expression that always matches the empty string but is not the bare empty
// alternative: 'z'? at a place where it is simply optional.
func Empty2() *E { return Opt(Lit("z")) }

// ---- multi-rule grammars by outlining ----

// Outline turns a single-rule grammar S <- e into multi-rule variants: a sub-expression
// becomes rule A referenced once, or twice (S <- e[A] / A-context), or from inside a lookahead.
func Outline(g *Grammar) []*Grammar {
	if len(g.G.Rules) != 1 {
		return nil
	}
	root := g.G.Rules[0].E
	var subs []*E
	walk(root, func(e *E) {
		if e != root && e.K != ref.KEmpty && e.K != ref.KAct && e.K != ref.KPred && e.K != ref.KState {
			subs = append(subs, e)
		}
	})
	var out []*Grammar
	for si := range subs {
		// once
		body, sub := outlineAt(root, si)
		out = append(out, New(g.Tag+fmt.Sprintf("/outline%d", si), body, sub))
		// twice: S <- body / A 'b'
		body2, sub2 := outlineAt(root, si)
		out = append(out, New(g.Tag+fmt.Sprintf("/outline%d-twice", si), Alt(body2, Seq(Ref(1), Lit("b"))), sub2))
		// referenced from a lookahead as well
		body3, sub3 := outlineAt(root, si)
		out = append(out, New(g.Tag+fmt.Sprintf("/outline%d-peek", si), Seq(And(Ref(1)), body3), sub3))
	}
	return out
}

func outlineAt(root *E, target int) (*E, *E) {
	idx := -1
	var sub *E
	var rec func(e *E, isRoot bool) *E
	rec = func(e *E, isRoot bool) *E {
		if !isRoot && e.K != ref.KEmpty && e.K != ref.KAct && e.K != ref.KPred && e.K != ref.KState {
			idx++
			if idx == target {
				sub = Clone(e)
				// consume indices of the subtree so numbering stays consistent
				return Ref(1)
			}
		}
		c := *e
		c.Kids = make([]*E, len(e.Kids))
		for i, k := range e.Kids {
			c.Kids[i] = rec(k, false)
		}
		return &c
	}
	// indices must match walk order (pre-order), which rec follows except inside the replaced
	// subtree; since we stop numbering after the target is found this is consistent.
	body := rec(root, true)
	return body, sub
}

// Sample returns a seeded random sample of n grammars.
func Sample(gs []*Grammar, n int, seed int64) []*Grammar {
	if n >= len(gs) {
		return gs
	}
	r := rand.New(rand.NewSource(seed))
	perm := r.Perm(len(gs))
	out := make([]*Grammar, 0, n)
	for _, i := range perm[:n] {
		out = append(out, gs[i])
	}
	return out
}
