module vhlib

go 1.25
