// Package pegread is an independent reader of the documented .peg syntax
// (docs/peg-file-syntax.md plus the escape table of the C10 property): a plain
// recursive-descent parser over a rune slice that produces a canonical dump of the grammar's
// meaning. It shares no code with peg.peg / peg.peg.go and is executed symbolically next to
// the real front end on the same (partly symbolic) text, and natively for replay.
//
// Canonical dump (lists are flattened, i.e. sequence and ordered choice are associative):
//
//	(package NAME)(import PATH ALIAS)...(peg NAME STATE)(rule NAME EXPR)...
//	EXPR ::= (name ID) | (dot) | (char C) | (range C C) | (alt E E ...) | (seq E E ...)
//	       | (and E) | (not E) | (opt E) | (star E) | (plus E) | (cap E)
//	       | (pred CODE) | (state CODE) | (act CODE) | (nil)
package pegread

type reader struct {
	in  []rune
	pos int
	ok  bool
}

// Result of reading a grammar text.
type Result struct {
	OK   bool
	Dump string
}

func (r *reader) eof() bool { return r.pos >= len(r.in) }

func (r *reader) peek() rune { return r.in[r.pos] }

func (r *reader) at(c rune) bool { return !r.eof() && r.in[r.pos] == c }

func (r *reader) lit(s string) bool {
	p := r.pos
	for _, c := range s {
		if p >= len(r.in) || r.in[p] != c {
			return false
		}
		p++
	}
	r.pos = p
	return true
}

func (r *reader) eol() bool {
	if r.lit("\r\n") || r.lit("\n") || r.lit("\r") {
		return true
	}
	return false
}

// spacing: blanks, tabs, line ends and comments (# ... or // ... to end of line).
func (r *reader) spacing() {
	for !r.eof() {
		switch {
		case r.at(' ') || r.at('\t'):
			r.pos++
		case r.at('\n') || r.at('\r'):
			r.eol()
		case r.at('#') || (r.at('/') && r.pos+1 < len(r.in) && r.in[r.pos+1] == '/'):
			save := r.pos
			for !r.eof() && !r.at('\n') && !r.at('\r') {
				r.pos++
			}
			if !r.eol() { // a comment must end with a line end
				r.pos = save
				return
			}
		default:
			return
		}
	}
}

func (r *reader) mustSpacing() bool {
	p := r.pos
	r.spacing()
	return r.pos > p
}

func isIdentStart(c rune) bool { return c >= 'a' && c <= 'z' || c >= 'A' && c <= 'Z' || c == '_' }
func isIdentCont(c rune) bool  { return isIdentStart(c) || c >= '0' && c <= '9' }

func (r *reader) identifier() (string, bool) {
	if r.eof() || !isIdentStart(r.peek()) {
		return "", false
	}
	start := r.pos
	r.pos++
	for !r.eof() && isIdentCont(r.peek()) {
		r.pos++
	}
	id := string(r.in[start:r.pos])
	r.spacing()
	return id, true
}

func (r *reader) leftArrow() bool {
	if r.lit("<-") || r.lit("←") {
		r.spacing()
		return true
	}
	return false
}

// action: { ... } with balanced braces; returns the text between the outer braces.
func (r *reader) action() (string, bool) {
	if !r.at('{') {
		return "", false
	}
	start := r.pos
	depth := 0
	for !r.eof() {
		c := r.peek()
		if c == '{' {
			depth++
		} else if c == '}' {
			depth--
			if depth == 0 {
				body := string(r.in[start+1 : r.pos])
				r.pos++
				r.spacing()
				return body, true
			}
		}
		r.pos++
	}
	r.pos = start
	return "", false
}

func isOct(c rune) bool { return c >= '0' && c <= '7' }
func isHex(c rune) bool {
	return c >= '0' && c <= '9' || c >= 'a' && c <= 'f' || c >= 'A' && c <= 'F'
}
func hexVal(c rune) rune {
	if c >= '0' && c <= '9' {
		return c - '0'
	}
	if c >= 'a' && c <= 'f' {
		return c - 'a' + 10
	}
	return c - 'A' + 10
}

// char reads one (possibly escaped) character and returns its code point as a string.
func (r *reader) char() (string, bool) {
	if r.eof() {
		return "", false
	}
	if !r.at('\\') {
		c := r.peek()
		r.pos++
		return string(c), true
	}
	save := r.pos
	r.pos++
	if r.eof() {
		r.pos = save
		return "", false
	}
	c := r.peek()
	// letters are case-insensitive in the escape table only where the documentation says so;
	// the harness keeps escape letters lower-case
	switch c {
	case 'a':
		r.pos++
		return "\a", true
	case 'b':
		r.pos++
		return "\b", true
	case 'e':
		r.pos++
		return "\x1B", true
	case 'f':
		r.pos++
		return "\f", true
	case 'n':
		r.pos++
		return "\n", true
	case 'r':
		r.pos++
		return "\r", true
	case 't':
		r.pos++
		return "\t", true
	case 'v':
		r.pos++
		return "\v", true
	case '\'', '"', '[', ']', '-', '\\':
		r.pos++
		return string(c), true
	}
	if c == '0' && r.pos+1 < len(r.in) && (r.in[r.pos+1] == 'x' || r.in[r.pos+1] == 'X') {
		// \0x hex digits
		p := r.pos + 2
		var v rune
		n := 0
		for p < len(r.in) && isHex(r.in[p]) {
			v = v*16 + hexVal(r.in[p])
			p++
			n++
		}
		if n > 0 {
			r.pos = p
			return string(v), true
		}
	}
	if isOct(c) {
		// up to three octal digits; three only if the first is 0..3
		v := c - '0'
		p := r.pos + 1
		if p < len(r.in) && isOct(r.in[p]) {
			v = v*8 + (r.in[p] - '0')
			p++
			if c <= '3' && p < len(r.in) && isOct(r.in[p]) {
				v = v*8 + (r.in[p] - '0')
				p++
			}
		}
		r.pos = p
		return string(v), true
	}
	r.pos = save
	return "", false
}

func lowerS(s string) string {
	out := ""
	for _, c := range s {
		if c >= 'A' && c <= 'Z' {
			c += 32
		}
		out += string(c)
	}
	return out
}

func upperS(s string) string {
	out := ""
	for _, c := range s {
		if c >= 'a' && c <= 'z' {
			c -= 32
		}
		out += string(c)
	}
	return out
}

func isLetterS(s string) bool {
	rs := []rune(s)
	return len(rs) == 1 && (rs[0] >= 'a' && rs[0] <= 'z' || rs[0] >= 'A' && rs[0] <= 'Z')
}

func charDump(c string) string { return "(char " + c + ")" }

// ex is an expression: for a list kind ("seq"/"alt") its holds the item dumps.
type ex struct {
	k   string
	its []string
	s   string
}

func leaf(s string) ex { return ex{s: s} }

func (e ex) dump() string {
	if e.k == "" {
		return e.s
	}
	s := "(" + e.k
	for _, it := range e.its {
		s += " " + it
	}
	return s + ")"
}

// list builds a flattened list: items of the same kind are spliced in (sequence and ordered
// choice are associative); a one-item list is the item.
func list(kind string, items []ex) ex {
	var its []string
	for _, it := range items {
		if it.k == kind {
			its = append(its, it.its...)
		} else {
			its = append(its, it.dump())
		}
	}
	if len(items) == 1 {
		return items[0]
	}
	return ex{k: kind, its: its}
}

func dcharEx(c string, escaped bool) ex {
	if !escaped && isLetterS(c) {
		return ex{k: "alt", its: []string{charDump(lowerS(c)), charDump(upperS(c))}}
	}
	return leaf(charDump(c))
}

// literal: '...' (case-sensitive) or "..." (case-insensitive letters).
func (r *reader) literal() (ex, bool) {
	if r.eof() || !(r.at('\'') || r.at('"')) {
		return ex{}, false
	}
	q := r.peek()
	save := r.pos
	r.pos++
	var items []ex
	for !r.eof() && !r.at(q) {
		esc := r.at('\\')
		c, ok := r.char()
		if !ok {
			r.pos = save
			return ex{}, false
		}
		if q == '"' {
			items = append(items, dcharEx(c, esc))
		} else {
			items = append(items, leaf(charDump(c)))
		}
	}
	if r.eof() || len(items) == 0 {
		// unterminated, or the empty literal (not a documented construct)
		r.pos = save
		return ex{}, false
	}
	r.pos++
	r.spacing()
	return list("seq", items), true
}

// class: [...], [^...], [[...]], [[^...]]
func (r *reader) class() (ex, bool) {
	if !r.at('[') {
		return ex{}, false
	}
	save := r.pos
	if r.lit("[[") {
		// a case-insensitive class; if the text does not close with ]] it is an ordinary class
		// whose first character is '['
		if e, ok := r.classBody(true, save); ok {
			return e, true
		}
		r.pos = save
	}
	r.pos++
	return r.classBody(false, save)
}

func (r *reader) classBody(double bool, save int) (ex, bool) {
	neg := false
	if r.at('^') {
		neg = true
		r.pos++
	}
	closing := func() bool {
		if double {
			return r.pos+1 < len(r.in) && r.in[r.pos] == ']' && r.in[r.pos+1] == ']'
		}
		return r.at(']')
	}
	var items []ex
	for !r.eof() && !closing() {
		esc1 := r.at('\\')
		a, ok := r.char()
		if !ok {
			r.pos = save
			return ex{}, false
		}
		if r.at('-') {
			p := r.pos
			r.pos++
			if !closing() {
				if b, ok := r.char(); ok {
					if double {
						items = append(items, leaf("(range "+lowerS(a)+" "+lowerS(b)+")"), leaf("(range "+upperS(a)+" "+upperS(b)+")"))
					} else {
						items = append(items, leaf("(range "+a+" "+b+")"))
					}
					continue
				}
			}
			r.pos = p
		}
		if double {
			items = append(items, dcharEx(a, esc1))
		} else {
			items = append(items, leaf(charDump(a)))
		}
	}
	if r.eof() || len(items) == 0 {
		r.pos = save
		return ex{}, false
	}
	if double {
		r.pos += 2
	} else {
		r.pos++
	}
	r.spacing()
	e := list("alt", items)
	if neg {
		e = list("seq", []ex{leaf("(not " + e.dump() + ")"), leaf("(dot)")})
	}
	return e, true
}

func (r *reader) sym(c rune) bool {
	if r.at(c) {
		r.pos++
		r.spacing()
		return true
	}
	return false
}

func (r *reader) primary() (ex, bool) {
	save := r.pos
	if id, ok := r.identifier(); ok {
		if r.leftArrow() { // the next definition starts here
			r.pos = save
			return ex{}, false
		}
		return leaf("(name " + id + ")"), true
	}
	if r.sym('(') {
		e, ok := r.expression()
		if ok && r.sym(')') {
			return e, true
		}
		r.pos = save
		return ex{}, false
	}
	if e, ok := r.literal(); ok {
		return e, true
	}
	if e, ok := r.class(); ok {
		return e, true
	}
	if r.sym('.') {
		return leaf("(dot)"), true
	}
	if a, ok := r.action(); ok {
		return leaf("(act " + a + ")"), true
	}
	if r.at('<') && !(r.pos+1 < len(r.in) && r.in[r.pos+1] == '-') {
		r.pos++
		r.spacing()
		e, ok := r.expression()
		if ok && r.sym('>') {
			return leaf("(cap " + e.dump() + ")"), true
		}
		r.pos = save
		return ex{}, false
	}
	return ex{}, false
}

func (r *reader) suffix() (ex, bool) {
	e, ok := r.primary()
	if !ok {
		return ex{}, false
	}
	switch {
	case r.sym('?'):
		return leaf("(opt " + e.dump() + ")"), true
	case r.sym('*'):
		return leaf("(star " + e.dump() + ")"), true
	case r.sym('+'):
		return leaf("(plus " + e.dump() + ")"), true
	}
	return e, true
}

func (r *reader) prefix() (ex, bool) {
	save := r.pos
	if r.sym('&') {
		if a, ok := r.action(); ok {
			return leaf("(pred " + a + ")"), true
		}
		if e, ok := r.suffix(); ok {
			return leaf("(and " + e.dump() + ")"), true
		}
		r.pos = save
		return ex{}, false
	}
	if r.sym('!') {
		if a, ok := r.action(); ok {
			return leaf("(state " + a + ")"), true
		}
		if e, ok := r.suffix(); ok {
			return leaf("(not " + e.dump() + ")"), true
		}
		r.pos = save
		return ex{}, false
	}
	return r.suffix()
}

func (r *reader) sequence() (ex, bool) {
	var items []ex
	for {
		e, ok := r.prefix()
		if !ok {
			break
		}
		items = append(items, e)
	}
	if len(items) == 0 {
		return ex{}, false
	}
	return list("seq", items), true
}

func (r *reader) expression() (ex, bool) {
	first, ok := r.sequence()
	if !ok {
		return leaf("(nil)"), true // the empty expression
	}
	items := []ex{first}
	for r.at('/') && !(r.pos+1 < len(r.in) && r.in[r.pos+1] == '/') {
		r.pos++
		r.spacing()
		e, ok := r.sequence()
		if !ok {
			// trailing slash: an empty last alternative
			items = append(items, leaf("(nil)"))
			break
		}
		items = append(items, e)
	}
	return list("alt", items), true
}

func (r *reader) importName() (string, bool) {
	save := r.pos
	alias := ""
	if id, ok := r.identifier(); ok {
		alias = id
	}
	if !r.at('"') {
		r.pos = save
		return "", false
	}
	r.pos++
	start := r.pos
	for !r.eof() && !r.at('"') {
		c := r.peek()
		if !(c >= '0' && c <= '9' || c >= 'a' && c <= 'z' || c >= 'A' && c <= 'Z' || c == '_' || c == '/' || c == '.' || c == '-') {
			r.pos = save
			return "", false
		}
		r.pos++
	}
	if r.eof() || r.pos == start {
		r.pos = save
		return "", false
	}
	path := string(r.in[start:r.pos])
	r.pos++
	return "(import " + path + " " + alias + ")", true
}

// Read parses a complete grammar text.
func Read(in []rune) Result {
	r := &reader{in: in}
	out := ""
	r.spacing()
	if !r.lit("package") || !r.mustSpacing() {
		return Result{}
	}
	name, ok := r.identifier()
	if !ok {
		return Result{}
	}
	out += "(package " + name + ")"
	for r.lit("import") {
		r.spacing()
		if r.sym('(') {
			for {
				imp, ok := r.importName()
				if !ok {
					break
				}
				out += imp
				if !r.lit("\n") {
					return Result{}
				}
				r.spacing()
			}
			r.spacing()
			if !r.sym(')') {
				return Result{}
			}
		} else {
			imp, ok := r.importName()
			if !ok {
				return Result{}
			}
			out += imp
			r.spacing()
		}
	}
	if !r.lit("type") || !r.mustSpacing() {
		return Result{}
	}
	tname, ok := r.identifier()
	if !ok {
		return Result{}
	}
	if !r.lit("Peg") {
		return Result{}
	}
	r.spacing()
	state, ok := r.action()
	if !ok {
		return Result{}
	}
	out += "(peg " + tname + " " + state + ")"
	nrules := 0
	for {
		id, ok := r.identifier()
		if !ok {
			break
		}
		if !r.leftArrow() {
			return Result{}
		}
		e, ok := r.expression()
		if !ok {
			return Result{}
		}
		out += "(rule " + id + " " + e.dump() + ")"
		nrules++
	}
	if nrules == 0 || !r.eof() {
		return Result{}
	}
	return Result{OK: true, Dump: out}
}
