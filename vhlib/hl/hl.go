// Package hl holds the grammar-independent harness logic for the generated-parser properties
// (C01-C07, C11-C14). Each function drives a real generated parser through the Parser
// interface (implemented by a small adapter emitted into the parser's own package) and the
// reference semantics (vhlib/ref) on the same input, and asserts the property.
package hl

import (
	"vhlib/ref"
	"vhlib/rt"
)

// Parser is what the per-variant adapter exposes.
type Parser interface {
	Init(buf string, memo bool, size int) // fresh instance; size < 0: no Size option
	SetSw(i int, v bool)
	Reset(buf string)
	Parse(rule int) bool // rule < 0: Parse() with no argument
	RuleIndex(name string) int
	Tokens() []ref.Tok
	MaxTok() ref.Tok
	ErrMsg() string
	Execute() []ref.Ev
	Trace() []ref.Ev
	Tree() []*ref.Node
	Sprint() string
	PrintOut(pretty bool) string // what PrintSyntaxTree writes to standard output
	BufferLen() int
}

// NSw is the number of semantic-predicate switches a family grammar may use.
const NSw = 2

// Input is one symbolic input: n arbitrary runes and the predicate switches.
type Input struct {
	S  string
	R  []rune
	Sw []bool
}

func NewInput(name string, n int, nsw int) *Input {
	in := &Input{}
	if long.filler != "" {
		in.S = longString(name, n)
	} else if raw.on {
		in.S = rawString(name, n)
	} else {
		in.S = rt.SymString(name, n)
	}
	in.R = []rune(in.S)
	in.Sw = make([]bool, NSw)
	for i := 0; i < nsw && i < NSw; i++ {
		in.Sw[i] = rt.Bool(name + "sw" + string(rune('0'+i)))
	}
	return in
}

// Long inputs: n runes of which all but (at most) two are a concrete filler cycle; the runes at
// the hole positions are arbitrary. Lets the same harnesses reach lengths where offsets and
// token counts cross the 2^8 and 2^16 boundaries of a narrow parser instantiation, wide trees
// and deep nesting, while the solver still decides the property for every value of the holes.
var long struct {
	filler string
	holes  [2]int
}

// Raw inputs: the Go string given as Buffer contains bytes that are not valid UTF-8 (or a NUL)
// at one place; everything around them is arbitrary. Go decodes every invalid byte to U+FFFD, so
// the rune sequence still has n runes.
var raw struct {
	on        bool
	pos, kind int
}

// RawBytes are the byte sequences SetRaw can insert: a lone 0xFF, a truncated two- and
// three-byte sequence, an encoded surrogate, a sequence above U+10FFFF, and NUL.
var RawBytes = []string{"\xff", "\xc3", "\xe2\x82", "\xed\xa0\x80", "\xf4\x90\x80\x80", "\x00"}

func SetRaw(pos, kind int) { raw.on, raw.pos, raw.kind = true, pos, kind }
func ClearRaw()            { raw.on = false }

func rawString(name string, n int) string {
	b := RawBytes[raw.kind]
	k := len([]rune(b))
	if raw.pos < 0 || raw.pos+k > n {
		return rt.SymString(name, n)
	}
	return rt.SymString(name+"p", raw.pos) + b + rt.SymString(name+"s", n-raw.pos-k)
}

// SetLong switches NewInput to long mode (h < 0: no hole). ClearLong switches back.
func SetLong(filler string, h1, h2 int) {
	long.filler, long.holes = filler, [2]int{h1, h2}
	ref.ExtraSteps = 1 << 28 // the reference's step budget is sized for short inputs
}

func ClearLong() {
	long.filler = ""
	ref.ExtraSteps = 0
}

func repeatCycle(cycle []rune, from, to int) string {
	// runes cycle[i % len] for from <= i < to; built from whole cycles where possible
	if to <= from {
		return ""
	}
	k := len(cycle)
	out := make([]rune, 0, to-from)
	for i := from; i < to; i++ {
		out = append(out, cycle[i%k])
	}
	return string(out)
}

func longString(name string, n int) string {
	cycle := []rune(long.filler)
	hs := long.holes
	if hs[0] > hs[1] {
		hs[0], hs[1] = hs[1], hs[0]
	}
	s, at := "", 0
	for _, h := range hs {
		if h < at || h >= n {
			continue
		}
		s += repeatCycle(cycle, at, h) + rt.SymString(name+"h"+itoa(h), 1)
		at = h + 1
	}
	return s + repeatCycle(cycle, at, n)
}

func start(mk func() Parser, in *Input, memo bool, size int) Parser {
	p := mk()
	p.Init(in.S, memo, size)
	for i, v := range in.Sw {
		p.SetSw(i, v)
	}
	return p
}

// entryIndex maps a grammar rule to the generated parser's rule constant; -1 selects Parse()
// with no argument (the first rule).
func entryIndex(p Parser, g *ref.Grammar, rule int) int {
	if rule == 0 {
		return -1
	}
	return p.RuleIndex(g.Rules[rule].Name)
}

func sameToks(a []ref.Tok, b []ref.Tok) bool {
	if len(a) != len(b) {
		return false
	}
	for i := range a {
		if a[i].Rule != b[i].Rule || a[i].B != b[i].B || a[i].E != b[i].E {
			return false
		}
	}
	return true
}

func observe(ok bool, toks []ref.Tok) {
	rt.ObserveBool("ok", ok)
	rt.ObserveInt("ntok", len(toks))
	for _, t := range toks {
		rt.ObserveStr("tok", t.Rule)
		rt.ObserveInt("b", t.B)
		rt.ObserveInt("e", t.E)
	}
}

// C01: verdict and consumed prefix equal the reference semantics, from the given entry rule.
func C01(g *ref.Grammar, mk func() Parser, n, rule, nsw int) {
	in := NewInput("in", n, nsw)
	p := start(mk, in, true, -1)
	ok := p.Parse(entryIndex(p, g, rule))
	r := ref.Run(g, rule, in.R, in.Sw)
	rt.Assume(!r.Aborted)
	rt.ObserveBool("ok", ok)
	rt.Assert("verdict", ok == r.OK)
	if ok {
		toks := p.Tokens()
		rt.Assert("entry-token", len(toks) > 0)
		last := toks[len(toks)-1]
		rt.ObserveInt("end", last.E)
		rt.Assert("prefix", rt.And(last.B == 0, last.E == r.End))
		rt.Assert("entry-rule", last.Rule == g.Rules[rule].Name)
		rt.Reach("accept")
	} else {
		rt.Reach("reject")
	}
}

// C03: the token list is the post-order derivation.
func C03(g *ref.Grammar, mk func() Parser, n, rule, nsw int) {
	in := NewInput("in", n, nsw)
	p := start(mk, in, true, -1)
	ok := p.Parse(entryIndex(p, g, rule))
	r := ref.Run(g, rule, in.R, in.Sw)
	rt.Assume(!r.Aborted)
	rt.Assert("verdict", ok == r.OK)
	if !ok {
		rt.Reach("reject")
		return
	}
	toks := p.Tokens()
	observe(ok, toks)
	rt.Assert("tokens", sameToks(toks, r.Toks))
	// every token lies inside the input and slicing the rune sequence by it is well defined
	for _, t := range toks {
		rt.Assert("token-span", 0 <= t.B && t.B <= t.E && t.E <= n)
	}
	rt.Reach("accept")
}

// ---- C02: option sets agree with the default parser ----

// C02 runs the default parser and the given variants (generated with -inline / -switch) on the
// same input and compares verdict, consumed prefix and token list.
func C02(g *ref.Grammar, def func() Parser, names []string, mks []func() Parser, n, nsw int) {
	in := NewInput("in", n, nsw)
	p0 := start(def, in, true, -1)
	ok0 := p0.Parse(-1)
	var t0 []ref.Tok
	if ok0 {
		t0 = p0.Tokens()
	}
	rt.ObserveBool("ok", ok0)
	for i, mk := range mks {
		p := start(mk, in, true, -1)
		ok := p.Parse(-1)
		rt.Assert("verdict/"+names[i], ok == ok0)
		if ok && ok0 {
			t := p.Tokens()
			rt.Assert("tokens/"+names[i], sameToks(t, t0))
		}
	}
	if ok0 {
		rt.Reach("accept")
	} else {
		rt.Reach("reject")
	}
}

// ---- C04: Execute runs the derivation's actions in order with the right text ----

func sameEvs(a, b []ref.Ev, withSpan bool) bool {
	if len(a) != len(b) {
		return false
	}
	ok := true
	for i := range a {
		if a[i].K != b[i].K {
			return false
		}
		if withSpan && (a[i].B != b[i].B || a[i].E != b[i].E) {
			return false
		}
		ok = rt.And(ok, a[i].Text == b[i].Text)
	}
	return ok
}

func C04(g *ref.Grammar, mk func() Parser, n, nsw int) {
	in := NewInput("in", n, nsw)
	p := start(mk, in, true, -1)
	ok := p.Parse(-1)
	r := ref.Run(g, 0, in.R, in.Sw)
	rt.Assume(!r.Aborted)
	rt.Assert("verdict", ok == r.OK)
	if !ok {
		rt.Reach("reject")
		return
	}
	got := p.Execute()
	want := ref.ActionTrace(r.Toks, in.R)
	rt.ObserveInt("nactions", len(got))
	for _, ev := range got {
		rt.ObserveInt("k", ev.K)
		rt.ObserveStr("text", ev.Text)
	}
	rt.Assert("action-count", len(got) == len(want))
	rt.Assert("action-trace", sameEvs(got, want, true))
	if len(want) > 0 {
		rt.Reach("actions-ran")
	}
	// Execute is repeatable: a second run appends the same trace again
	got2 := p.Execute()
	rt.Assert("execute-twice", len(got2) == 2*len(want))
	rt.Reach("accept")
}

// ---- C05: AST and printers ----

func sameTree(a, b []*ref.Node) bool {
	if len(a) != len(b) {
		return false
	}
	for i := range a {
		if a[i].Rule != b[i].Rule || a[i].B != b[i].B || a[i].E != b[i].E {
			return false
		}
		if !sameTree(a[i].Kids, b[i].Kids) {
			return false
		}
	}
	return true
}

// quote is strconv.Quote; kept behind a variable so that vhlib has no strconv import cycle issues
func expectPrint(nodes []*ref.Node, depth int, in []rune, quote func(string) string) string {
	return expectPrintP(nodes, depth, in, quote, false)
}

// expectPrintP: with pretty the rule name is wrapped in the cyan colour code, nothing else changes.
func expectPrintP(nodes []*ref.Node, depth int, in []rune, quote func(string) string, pretty bool) string {
	s := ""
	for _, nd := range nodes {
		for i := 0; i < depth; i++ {
			s += " "
		}
		rule := nd.Rule
		if pretty {
			rule = "\x1B[36m" + rule + "\x1B[m"
		}
		s += rule + " " + quote(string(in[nd.B:nd.E])) + "\n"
		s += expectPrintP(nd.Kids, depth+1, in, quote, pretty)
	}
	return s
}

func C05(g *ref.Grammar, mk func() Parser, quote func(string) string, n, nsw int) {
	in := NewInput("in", n, nsw)
	p := start(mk, in, true, -1)
	ok := p.Parse(-1)
	r := ref.Run(g, 0, in.R, in.Sw)
	rt.Assume(!r.Aborted)
	rt.Assert("verdict", ok == r.OK)
	if !ok {
		rt.Reach("reject")
		return
	}
	want := ref.Tree(r.Toks)
	got := p.Tree()
	rt.Assert("ast", sameTree(got, want))
	// the tree can be asked for again and is the same (AST() must not disturb the tokens)
	rt.Assert("ast-twice", sameTree(p.Tree(), want))
	s := p.Sprint()
	rt.ObserveStr("print", s)
	rt.Assert("print", s == expectPrint(want, 0, in.R, quote))
	// PrintSyntaxTree writes the same text to standard output; with Pretty the rule names are coloured
	rt.Assert("print-stdout", p.PrintOut(false) == s)
	rt.Assert("print-stdout-pretty", p.PrintOut(true) == expectPrintP(want, 0, in.R, quote, true))
	rt.Assert("tokens-after-print", sameToks(p.Tokens(), r.Toks))
	if len(want) > 0 {
		rt.Reach("nonempty-tree")
	}
	rt.Reach("accept")
}

// C05Reuse: the tree of a parse on a parser that has already parsed, and printed the tree of,
// another input (Buffer, Reset, Parse): nothing of the earlier tree may remain.
func C05Reuse(g *ref.Grammar, mk func() Parser, quote func(string) string, n1, n2, nsw int) {
	in1 := NewInput("ina", n1, nsw)
	in2 := NewInput("inb", n2, nsw)
	p := start(mk, in1, true, -1)
	if p.Parse(-1) {
		_ = p.Tree()
		_ = p.Sprint()
	}
	for j, v := range in2.Sw {
		p.SetSw(j, v)
	}
	p.Reset(in2.S)
	ok := p.Parse(-1)
	r := ref.Run(g, 0, in2.R, in2.Sw)
	rt.Assume(!r.Aborted)
	rt.Assert("reuse/verdict", ok == r.OK)
	if !ok {
		rt.Reach("reject")
		return
	}
	want := ref.Tree(r.Toks)
	rt.Assert("reuse/ast", sameTree(p.Tree(), want))
	s := p.Sprint()
	rt.ObserveStr("print", s)
	rt.Assert("reuse/print", s == expectPrint(want, 0, in2.R, quote))
	rt.Reach("accept")
}

// ---- C06: memoisation on/off ----

func C06(g *ref.Grammar, mk func() Parser, n, nsw int) {
	in := NewInput("in", n, nsw)
	pm := start(mk, in, true, -1)
	pn := start(mk, in, false, -1)
	okm := pm.Parse(-1)
	okn := pn.Parse(-1)
	r := ref.Run(g, 0, in.R, in.Sw)
	rt.Assume(!r.Aborted)
	rt.ObserveBool("ok", okm)
	rt.Assert("verdict/memo-vs-nomemo", okm == okn)
	rt.Assert("verdict/ref", okm == r.OK)
	if okm && okn {
		tm, tn := pm.Tokens(), pn.Tokens()
		rt.Assert("tokens/memo-vs-nomemo", sameToks(tm, tn))
		rt.Assert("tokens/ref", sameToks(tm, r.Toks))
		rt.Assert("print/memo-vs-nomemo", pm.Sprint() == pn.Sprint())
	}
	if !okm && !okn {
		mm, mn := pm.MaxTok(), pn.MaxTok()
		rt.ObserveStr("maxrule", mm.Rule)
		rt.Assert("error-token/memo-vs-nomemo", mm.Rule == mn.Rule && mm.B == mn.B && mm.E == mn.E)
		rt.Assert("error-token/ref", mm.Rule == errRule(r.Max) && mm.B == r.Max.B && mm.E == r.Max.E)
	}
	if r.Revisit {
		rt.Reach("memo-hit")
	}
	rt.Reach("done")
}

// C06Reuse: the same comparison on parsers that have already been used (first input, Reset,
// second input): whatever the memo table holds after the first parse must not show.
func C06Reuse(g *ref.Grammar, mk func() Parser, n1, n2, nsw int) {
	in1 := NewInput("ina", n1, nsw)
	in2 := NewInput("inb", n2, nsw)
	pm := start(mk, in1, true, -1)
	pn := start(mk, in1, false, -1)
	ok1m, ok1n := pm.Parse(-1), pn.Parse(-1)
	rt.Assert("first/verdict/memo-vs-nomemo", ok1m == ok1n)
	for _, p := range []Parser{pm, pn} {
		for j, v := range in2.Sw {
			p.SetSw(j, v)
		}
		p.Reset(in2.S)
	}
	okm, okn := pm.Parse(-1), pn.Parse(-1)
	r := ref.Run(g, 0, in2.R, in2.Sw)
	rt.Assume(!r.Aborted)
	rt.ObserveBool("ok", okm)
	rt.Assert("reuse/verdict/memo-vs-nomemo", okm == okn)
	rt.Assert("reuse/verdict/ref", okm == r.OK)
	if okm && okn {
		tm := pm.Tokens()
		rt.Assert("reuse/tokens/memo-vs-nomemo", sameToks(tm, pn.Tokens()))
		rt.Assert("reuse/tokens/ref", sameToks(tm, r.Toks))
	}
	if !okm && !okn {
		mm, mn := pm.MaxTok(), pn.MaxTok()
		rt.Assert("reuse/error-token/memo-vs-nomemo", mm.Rule == mn.Rule && mm.B == mn.B && mm.E == mn.E)
		rt.Assert("reuse/error-token/ref", mm.Rule == errRule(r.Max) && mm.B == r.Max.B && mm.E == r.Max.E)
	}
	rt.Reach("done")
}

func errRule(t ref.Tok) string {
	if t.Rule == "" {
		return "Unknown"
	}
	return t.Rule
}

// ---- C07: -noast parsers ----

// C07 compares the verdict of each -noast variant with the default parser, and the inline
// action trace with the reference's evaluation-order trace (exact for -noast and -noast
// -inline; under -switch the set of alternatives attempted legitimately differs, so there each
// event's text only has to be a capture completed earlier in the same run or empty).
func C07(g *ref.Grammar, def func() Parser, names []string, mks []func() Parser, exact []bool, n, nsw int) {
	in := NewInput("in", n, nsw)
	p0 := start(def, in, true, -1)
	ok0 := p0.Parse(-1)
	r := ref.Run(g, 0, in.R, in.Sw)
	rt.Assume(!r.Aborted)
	rt.ObserveBool("ok", ok0)
	rt.Assert("verdict/default-vs-ref", ok0 == r.OK)
	for i, mk := range mks {
		p := start(mk, in, true, -1)
		ok := p.Parse(-1)
		rt.Assert("verdict/"+names[i], ok == ok0)
		tr := p.Trace()
		if exact[i] {
			rt.Assert("trace-count/"+names[i], len(tr) == len(r.Reached))
			rt.Assert("trace/"+names[i], sameEvs(tr, r.Reached, false))
		} else if n <= 16 { // quadratic in n: not run on the long-input layer (the verdict is)
			for _, ev := range tr {
				okText := ev.Text == ""
				for b := 0; b <= n; b++ {
					for e := b; e <= n; e++ {
						okText = rt.Or(okText, ev.Text == string(in.R[b:e]))
					}
				}
				rt.Assert("trace-text-is-input-span/"+names[i], okText)
			}
		}
	}
	if len(r.Reached) > 0 {
		rt.Reach("actions-reached")
	}
	rt.Reach("done")
}

// ---- C11: the error locates the failure ----

// lineCol is the documented position of offset p: line = 1 + newlines before p; column =
// 1 + number of runes between the last newline before p and p.
func lineCol(in []rune, p int) (line, col int) {
	line, col = 1, 1
	for i := 0; i < p; i++ {
		if in[i] == '\n' {
			line++
			col = 1
		} else {
			col++
		}
	}
	return
}

// numbers extracts the decimal numbers of s in order.
func numbers(s string) []int {
	var out []int
	i := 0
	for i < len(s) {
		if s[i] >= '0' && s[i] <= '9' {
			v := 0
			for i < len(s) && s[i] >= '0' && s[i] <= '9' {
				v = v*10 + int(s[i]-'0')
				i++
			}
			out = append(out, v)
		} else {
			i++
		}
	}
	return out
}

func contains(s, sub string) bool {
	for i := 0; i+len(sub) <= len(s); i++ {
		if s[i:i+len(sub)] == sub {
			return true
		}
	}
	return false
}

func checkError(p Parser, r *ref.Res, in *Input, n int, quote func(string) string, tag string) {
	mt := p.MaxTok()
	rt.ObserveStr("maxrule", mt.Rule)
	rt.ObserveInt("maxb", mt.B)
	rt.ObserveInt("maxe", mt.E)
	rt.Assert("error-token-in-input"+tag, 0 <= mt.B && mt.B <= mt.E && mt.E <= n)
	rt.Assert("error-token"+tag, mt.Rule == errRule(r.Max) && mt.B == r.Max.B && mt.E == r.Max.E)
	msg := p.ErrMsg()
	rt.ObserveStr("msg", msg)
	before, quoted, _ := rt.SplitQuote(msg)
	rt.Assert("message-names-rule"+tag, contains(before, mt.Rule))
	nums := numbers(before)
	l1, c1 := lineCol(in.R, mt.B)
	l2, c2 := lineCol(in.R, mt.E)
	rt.Assert("message-has-positions"+tag, len(nums) >= 4)
	if len(nums) >= 4 {
		k := len(nums) - 4
		rt.Assert("message-begin-position"+tag, nums[k] == l1 && nums[k+1] == c1)
		rt.Assert("message-end-position"+tag, nums[k+2] == l2 && nums[k+3] == c2)
	}
	rt.Assert("message-quotes-text"+tag, quoted == quote(string(in.R[mt.B:mt.E])))
}

func C11(g *ref.Grammar, mk func() Parser, quote func(string) string, n, nsw int) {
	in := NewInput("in", n, nsw)
	p := start(mk, in, true, -1)
	ok := p.Parse(-1)
	r := ref.Run(g, 0, in.R, in.Sw)
	rt.Assume(!r.Aborted)
	rt.ObserveBool("ok", ok)
	rt.Assert("nil-iff-matched", ok == r.OK)
	if ok {
		rt.Reach("accept")
		return
	}
	checkError(p, r, in, n, quote, "")
	if r.Max.B != r.Max.E {
		rt.Reach("nonempty-error-token")
	}
	rt.Reach("reject")
}

// ---- C12: reuse ----

type snapshot struct {
	ok    bool
	toks  []ref.Tok
	max   ref.Tok
	msg   string
	trace []ref.Ev
	print string
}

func snap(p Parser, hasActions bool) snapshot {
	var s snapshot
	s.ok = p.Parse(-1)
	if s.ok {
		s.toks = p.Tokens()
		if hasActions {
			s.trace = p.Execute()
		}
		s.print = p.Sprint()
	} else {
		s.max = p.MaxTok()
		s.msg = p.ErrMsg()
	}
	return s
}

func sameSnap(id string, a, b snapshot) {
	rt.Assert(id+"/verdict", a.ok == b.ok)
	if a.ok && b.ok {
		rt.Assert(id+"/tokens", sameToks(a.toks, b.toks))
		rt.Assert(id+"/trace", len(a.trace) == len(b.trace) && sameEvs(a.trace, b.trace, true))
		rt.Assert(id+"/tree-print", a.print == b.print)
	}
	if !a.ok && !b.ok {
		rt.Assert(id+"/error-token", a.max.Rule == b.max.Rule && a.max.B == b.max.B && a.max.E == b.max.E)
		rt.Assert(id+"/error-message", a.msg == b.msg)
	}
}

// C12 feeds k inputs to one long-lived parser (Buffer, Reset, Parse, Execute, print) and
// compares each step with a fresh parser given that input alone.
func C12(g *ref.Grammar, mk func() Parser, hasActions bool, size int, lens []int, same bool, nsw int) {
	c12(g, mk, hasActions, size, lens, same, nsw, true)
}

// C12NoMemo: the same histories on a parser with memoisation disabled (state that only the memo
// table happens to reset must be reset without it too).
func C12NoMemo(g *ref.Grammar, mk func() Parser, hasActions bool, lens []int, nsw int) {
	c12(g, mk, hasActions, -1, lens, false, nsw, false)
}

func c12(g *ref.Grammar, mk func() Parser, hasActions bool, size int, lens []int, same bool, nsw int, memo bool) {
	var reused Parser
	ins := make([]*Input, len(lens))
	for i, n := range lens {
		name := "in" + string(rune('a'+i))
		if same && i > 0 {
			ins[i] = ins[0] // the same input again
		} else {
			ins[i] = NewInput(name, n, nsw)
		}
	}
	for i, in := range ins {
		if i == 0 {
			reused = start(mk, in, memo, size)
		} else {
			for j, v := range in.Sw {
				reused.SetSw(j, v)
			}
			reused.Reset(in.S)
		}
		got := snap(reused, hasActions)
		fresh := start(mk, in, memo, -1)
		want := snap(fresh, hasActions)
		rt.ObserveBool("ok", got.ok)
		sameSnap("step"+string(rune('0'+i)), got, want)
	}
	rt.Reach("done")
}

// C12U: the result does not depend on the unsigned type instantiating the parser nor on Size.
func C12U(g *ref.Grammar, mks []func() Parser, names []string, hasActions bool, sizes []int, n, nsw int) {
	in := NewInput("in", n, nsw)
	base := snap(start(mks[0], in, true, -1), hasActions)
	for i, mk := range mks {
		for _, sz := range sizes {
			if i == 0 && sz < 0 {
				continue
			}
			got := snap(start(mk, in, true, sz), hasActions)
			sameSnap("type-"+names[i]+"/size"+itoa(sz), got, base)
		}
	}
	rt.Reach("done")
}

func itoa(k int) string {
	if k < 0 {
		return "unset"
	}
	if k == 0 {
		return "0"
	}
	s := ""
	for k > 0 {
		s = string(rune('0'+k%10)) + s
		k /= 10
	}
	return s
}

// ---- C13: no crash, offsets index the rune sequence ----

func C13(g *ref.Grammar, names []string, mks []func() Parser, ast []bool, hasActions bool, n, nsw int) {
	in := NewInput("in", n, nsw)
	for i, mk := range mks {
		p := start(mk, in, true, -1)
		rt.Assert("buffer-has-sentinel/"+names[i], p.BufferLen() == n+1)
		ok := p.Parse(-1)
		if i == 0 {
			rt.ObserveBool("ok", ok)
		}
		if ok {
			if ast[i] {
				for _, t := range p.Tokens() {
					rt.Assert("token-span/"+names[i], 0 <= t.B && t.B <= t.E && t.E <= n)
				}
				_ = p.Sprint()
				if hasActions {
					_ = p.Execute()
				}
			}
		} else {
			mt := p.MaxTok()
			rt.Assert("error-token-span/"+names[i], 0 <= mt.B && mt.B <= mt.E && mt.E <= n)
			_ = p.ErrMsg()
		}
	}
	rt.Reach("done")
}

// ---- C14: instances do not interfere ----

// C14 interleaves the API calls of two instances in the order given by `order` (a bit string:
// bit i = 0 means instance A makes its next call, 1 means B) and compares each instance's
// observables with its run-alone observables; the footprints of the two actors must be
// disjoint except for read/read sharing.
func C14(g *ref.Grammar, mkA, mkB func() Parser, hasActions bool, n1, n2, order, nsw int) {
	inA := NewInput("ina", n1, nsw)
	inB := NewInput("inb", n2, nsw)
	// run alone
	wantA := snap(start(mkA, inA, true, -1), hasActions)
	wantB := snap(start(mkB, inB, true, -1), hasActions)
	// interleaved: each instance performs init, parse, observe
	var pa, pb Parser
	var gotA, gotB snapshot
	stepA, stepB := 0, 0
	for i := 0; i < 6; i++ {
		if (order>>uint(i))&1 == 0 && stepA < 3 || stepB >= 3 {
			rt.Actor(1)
			switch stepA {
			case 0:
				pa = start(mkA, inA, true, -1)
			case 1:
				gotA.ok = pa.Parse(-1)
			case 2:
				observeInto(pa, &gotA, hasActions)
			}
			stepA++
		} else {
			rt.Actor(2)
			switch stepB {
			case 0:
				pb = start(mkB, inB, true, -1)
			case 1:
				gotB.ok = pb.Parse(-1)
			case 2:
				observeInto(pb, &gotB, hasActions)
			}
			stepB++
		}
		rt.Actor(0)
	}
	rt.ObserveBool("okA", gotA.ok)
	rt.ObserveBool("okB", gotB.ok)
	sameSnap("instanceA", gotA, wantA)
	sameSnap("instanceB", gotB, wantB)
	rt.Assert("footprints-disjoint", rt.FootprintsDisjoint(1, 2))
	if !rt.Symbolic() {
		// native replay: really run the two instances concurrently (the replay binary is built
		// with the race detector, whose report confirms a footprint conflict)
		concurrently(mkA, mkB, inA, inB, hasActions)
	}
	rt.Reach("done")
}

func concurrently(mkA, mkB func() Parser, inA, inB *Input, hasActions bool) {
	for round := 0; round < 20; round++ {
		done := make(chan bool, 2)
		for i := 0; i < 2; i++ {
			mk, in := mkA, inA
			if i == 1 {
				mk, in = mkB, inB
			}
			go func() {
				s := snap(start(mk, in, true, -1), hasActions)
				_ = s
				done <- true
			}()
		}
		<-done
		<-done
	}
}

func observeInto(p Parser, s *snapshot, hasActions bool) {
	if s.ok {
		s.toks = p.Tokens()
		if hasActions {
			s.trace = p.Execute()
		}
		s.print = p.Sprint()
	} else {
		s.max = p.MaxTok()
		s.msg = p.ErrMsg()
	}
}

// C11Reuse: the error of a parse after Reset belongs to that attempt (no stale furthest token).
func C11Reuse(g *ref.Grammar, mk func() Parser, quote func(string) string, n1, n2, nsw int) {
	in1 := NewInput("ina", n1, nsw)
	in2 := NewInput("inb", n2, nsw)
	p := start(mk, in1, true, -1)
	p.Parse(-1)
	for j, v := range in2.Sw {
		p.SetSw(j, v)
	}
	p.Reset(in2.S)
	ok := p.Parse(-1)
	r := ref.Run(g, 0, in2.R, in2.Sw)
	rt.Assume(!r.Aborted)
	rt.ObserveBool("ok", ok)
	rt.Assert("nil-iff-matched", ok == r.OK)
	if ok {
		rt.Reach("accept")
		return
	}
	checkError(p, r, in2, n2, quote, "/after-reset")
	rt.Reach("reject")
}

// C02Entry: -switch (without -inline every rule keeps its function) against the default parser
// from an arbitrary entry rule.
func C02Entry(g *ref.Grammar, def, sw func() Parser, n, rule, nsw int) {
	in := NewInput("in", n, nsw)
	p0 := start(def, in, true, -1)
	ok0 := p0.Parse(entryIndex(p0, g, rule))
	p1 := start(sw, in, true, -1)
	ok1 := p1.Parse(entryIndex(p1, g, rule))
	rt.ObserveBool("ok", ok0)
	rt.Assert("verdict/switch/entry-rule", ok0 == ok1)
	if ok0 && ok1 {
		rt.Assert("tokens/switch/entry-rule", sameToks(p0.Tokens(), p1.Tokens()))
	}
	rt.Reach("done")
}

// C05Unit: the real AST() on k tokens with ARBITRARY spans in [0, 6], assuming only what every
// parse guarantees (post-order: a later token either contains an earlier one or starts at or
// after its end; begin <= end), against the tree defined directly from the spans. Covers every
// derivation shape with k tokens (equal spans, zero-width tokens between siblings, many
// siblings) independently of any grammar.
func C05Unit(astOf func(b, e []int) []*ref.Node, rule string, k int) {
	const max = 6
	b := make([]int, k)
	e := make([]int, k)
	toks := make([]ref.Tok, k)
	for i := 0; i < k; i++ {
		b[i] = rt.Int("b" + string(rune('0'+i)))
		e[i] = rt.Int("e" + string(rune('0'+i)))
		rt.Assume(rt.And(0 <= b[i], b[i] <= e[i], e[i] <= max))
		for j := 0; j < i; j++ {
			inside := rt.And(b[i] <= b[j], e[j] <= e[i])
			before := e[j] <= b[i]
			rt.Assume(rt.Or(inside, before))
		}
		toks[i] = ref.Tok{Rule: rule, B: b[i], E: e[i]}
	}
	got := astOf(b, e)
	want := ref.Tree(toks)
	// AST() returns the top of its stack: the last root and, through next, the earlier ones
	rt.Assert("unit/ast", sameForest(got, want))
	rt.Reach("done")
}

// sameForest compares the real AST (a next-chain starting at the LAST root, as AST() returns the
// top of its stack... for a complete parse there is exactly one root) with the expected roots.
func sameForest(got, want []*ref.Node) bool {
	if len(want) == 0 {
		return len(got) == 0
	}
	// AST() returns only the last root (with its subtree); earlier roots are unreachable from it
	if len(got) != 1 {
		return false
	}
	return sameTree(got, want[len(want)-1:])
}
