// Package hl holds the grammar-independent harness logic for the generated-parser properties
// (C01-C07, C11-C14). Each function drives a real generated parser through the Parser
// interface (implemented by a small adapter emitted into the parser's own package) and the
// reference semantics (vhlib/ref) on the same input, and asserts the property.
package hl

import (
	"vhlib/ref"
	"vhlib/rt"
)

// Parser is what the per-variant adapter exposes.
type Parser interface {
	Init(buf string, memo bool, size int) // fresh instance; size < 0: no Size option
	SetSw(i int, v bool)
	Reset(buf string)
	Parse(rule int) bool // rule < 0: Parse() with no argument
	RuleIndex(name string) int
	Tokens() []ref.Tok
	MaxTok() ref.Tok
	ErrMsg() string
	Execute() []ref.Ev
	Trace() []ref.Ev
	Tree() []*ref.Node
	Sprint() string
	BufferLen() int
}

// NSw is the number of semantic-predicate switches a family grammar may use.
const NSw = 2

// Input is one symbolic input: n arbitrary runes and the predicate switches.
type Input struct {
	S  string
	R  []rune
	Sw []bool
}

func NewInput(name string, n int, nsw int) *Input {
	in := &Input{S: rt.SymString(name, n)}
	in.R = []rune(in.S)
	in.Sw = make([]bool, NSw)
	for i := 0; i < nsw && i < NSw; i++ {
		in.Sw[i] = rt.Bool(name + "sw" + string(rune('0'+i)))
	}
	return in
}

func start(mk func() Parser, in *Input, memo bool, size int) Parser {
	p := mk()
	p.Init(in.S, memo, size)
	for i, v := range in.Sw {
		p.SetSw(i, v)
	}
	return p
}

// entryIndex maps a grammar rule to the generated parser's rule constant; -1 selects Parse()
// with no argument (the first rule).
func entryIndex(p Parser, g *ref.Grammar, rule int) int {
	if rule == 0 {
		return -1
	}
	return p.RuleIndex(g.Rules[rule].Name)
}

func sameToks(a []ref.Tok, b []ref.Tok) bool {
	if len(a) != len(b) {
		return false
	}
	for i := range a {
		if a[i].Rule != b[i].Rule || a[i].B != b[i].B || a[i].E != b[i].E {
			return false
		}
	}
	return true
}

func observe(ok bool, toks []ref.Tok) {
	rt.ObserveBool("ok", ok)
	rt.ObserveInt("ntok", len(toks))
	for _, t := range toks {
		rt.ObserveStr("tok", t.Rule)
		rt.ObserveInt("b", t.B)
		rt.ObserveInt("e", t.E)
	}
}

// C01: verdict and consumed prefix equal the reference semantics, from the given entry rule.
func C01(g *ref.Grammar, mk func() Parser, n, rule, nsw int) {
	in := NewInput("in", n, nsw)
	p := start(mk, in, true, -1)
	ok := p.Parse(entryIndex(p, g, rule))
	r := ref.Run(g, rule, in.R, in.Sw)
	rt.Assume(!r.Aborted)
	rt.ObserveBool("ok", ok)
	rt.Assert("verdict", ok == r.OK)
	if ok {
		toks := p.Tokens()
		rt.Assert("entry-token", len(toks) > 0)
		last := toks[len(toks)-1]
		rt.ObserveInt("end", last.E)
		rt.Assert("prefix", rt.And(last.B == 0, last.E == r.End))
		rt.Assert("entry-rule", last.Rule == g.Rules[rule].Name)
		rt.Reach("accept")
	} else {
		rt.Reach("reject")
	}
}

// C03: the token list is the post-order derivation.
func C03(g *ref.Grammar, mk func() Parser, n, rule, nsw int) {
	in := NewInput("in", n, nsw)
	p := start(mk, in, true, -1)
	ok := p.Parse(entryIndex(p, g, rule))
	r := ref.Run(g, rule, in.R, in.Sw)
	rt.Assume(!r.Aborted)
	rt.Assert("verdict", ok == r.OK)
	if !ok {
		rt.Reach("reject")
		return
	}
	toks := p.Tokens()
	observe(ok, toks)
	rt.Assert("tokens", sameToks(toks, r.Toks))
	// every token lies inside the input and slicing the rune sequence by it is well defined
	for _, t := range toks {
		rt.Assert("token-span", 0 <= t.B && t.B <= t.E && t.E <= n)
	}
	rt.Reach("accept")
}
