// Package ref is the reference semantics of parsing expression grammars (Ford 2004) as peg's
// documentation states them, written independently of the implementation: no first sets, no
// memoisation, no labels. It is plain Go so that it can be executed symbolically next to a
// generated parser on the same symbolic input, and natively when a counterexample is replayed.
package ref

type Kind int

const (
	KEmpty Kind = iota // always succeeds, consumes nothing (empty alternative)
	KLit               // literal: the runes of Lit in order (Fold: ASCII letters match either case)
	KClass             // one rune in Ranges (Fold: ranges doubled for either case; Neg: not in Ranges)
	KDot               // any one rune (fails only at end of input)
	KSeq
	KAlt   // ordered choice
	KOpt   // e?
	KStar  // e*   greedy, possessive
	KPlus  // e+
	KAnd   // &e   never consumes
	KNot   // !e   never consumes
	KCap   // <e>  capture
	KRef   // rule reference
	KAct   // { action }   succeeds, zero width
	KPred  // &{ p.Sw[Idx] }   succeeds iff the switch is on
	KState // !{ p.N++ }   runs when reached, always succeeds
)

type Range struct{ Lo, Hi rune }

type Expr struct {
	K      Kind
	Kids   []*Expr
	Lit    []rune
	Fold   bool
	Ranges []Range
	Neg    bool
	Rule   int // KRef: index into Grammar.Rules
	Idx    int // KAct: action number (textual order); KPred: switch number
}

type Rule struct {
	Name string
	E    *Expr
}

type Grammar struct {
	Rules []Rule
}

// Tok is a token in neutral form: rule name, begin and end as rune offsets.
type Tok struct {
	Rule string
	B, E int
}

// Ev is one action execution observed by a probe action.
type Ev struct {
	K    int // action number
	B, E int // begin/end of the capture bound to text (AST mode only)
	Text string
}

// Res is the outcome of one reference evaluation.
type Res struct {
	OK      bool
	End     int   // consumed prefix (valid if OK)
	Toks    []Tok // post-order tokens of the successful derivation (valid if OK)
	Max     Tok   // first non-empty token reaching the furthest end, in evaluation order
	Reached []Ev  // actions in the order reached during evaluation, with the text of the capture
	// most recently completed in evaluation order (the -noast contract)
	N       int  // number of !{...} state changes executed
	Revisit bool // some (rule, offset) pair was entered twice (a memo hit in a packrat parser)
	Steps   int
	Aborted bool // step budget exhausted (ill-formed grammar)
}

type machine struct {
	g      *Grammar
	in     []rune
	sw     []bool
	toks   []Tok
	max    Tok
	reach  []Ev
	text   string // capture most recently completed in evaluation order
	n      int
	visits map[[2]int]bool
	revis  bool
	steps  int
	abort  bool
}

const MaxSteps = 100000

// ExtraSteps raises the step budget (long inputs; zero by default).
var ExtraSteps int

func actName(k int) string { return "Action" + itoa(k) }

func itoa(k int) string {
	if k == 0 {
		return "0"
	}
	s := ""
	for k > 0 {
		s = string(rune('0'+k%10)) + s
		k /= 10
	}
	return s
}

// Run evaluates rule `rule` of g on the input from offset 0.
func Run(g *Grammar, rule int, in []rune, sw []bool) *Res {
	m := &machine{g: g, in: in, sw: sw, visits: map[[2]int]bool{}}
	end, ok := m.rule(rule, 0)
	r := &Res{OK: ok, End: end, Max: m.max, Reached: m.reach, N: m.n, Revisit: m.revis, Steps: m.steps, Aborted: m.abort}
	if ok {
		r.Toks = m.toks
	}
	return r
}

func (m *machine) add(name string, b, e int) {
	m.toks = append(m.toks, Tok{name, b, e})
	if b != e && e > m.max.E {
		m.max = Tok{name, b, e}
	}
}

func (m *machine) rule(r int, pos int) (int, bool) {
	key := [2]int{r, pos}
	if m.visits[key] {
		m.revis = true
	}
	m.visits[key] = true
	mark := len(m.toks)
	end, ok := m.eval(m.g.Rules[r].E, pos)
	if !ok {
		m.toks = m.toks[:mark]
		return pos, false
	}
	m.add(m.g.Rules[r].Name, pos, end)
	return end, true
}

func lower(r rune) rune {
	if r >= 'A' && r <= 'Z' {
		return r + 32
	}
	return r
}

func upper(r rune) rune {
	if r >= 'a' && r <= 'z' {
		return r - 32
	}
	return r
}

func isLetter(r rune) bool { return r >= 'a' && r <= 'z' || r >= 'A' && r <= 'Z' }

// eval returns the new position and whether e matched at pos. On failure the token list is
// restored by the caller that owns the choice point.
func (m *machine) eval(e *Expr, pos int) (int, bool) {
	m.steps++
	if m.steps > MaxSteps+ExtraSteps {
		m.abort = true
		return pos, false
	}
	switch e.K {
	case KEmpty:
		return pos, true
	case KLit:
		p := pos
		for _, c := range e.Lit {
			if p >= len(m.in) {
				return pos, false
			}
			r := m.in[p]
			if e.Fold && isLetter(c) {
				if r != lower(c) {
					if r != upper(c) {
						return pos, false
					}
				}
			} else if r != c {
				return pos, false
			}
			p++
		}
		return p, true
	case KClass:
		if pos >= len(m.in) {
			return pos, false
		}
		r := m.in[pos]
		hit := false
		for _, rg := range e.Ranges {
			if !e.Fold {
				if inRange(r, rg.Lo, rg.Hi) {
					hit = true
					break
				}
				continue
			}
			// [[lo-hi]] denotes the range between the lower-cased endpoints or the range
			// between the upper-cased endpoints
			if inRange(r, lowerS(rg.Lo), lowerS(rg.Hi)) {
				hit = true
				break
			}
			if inRange(r, upperS(rg.Lo), upperS(rg.Hi)) {
				hit = true
				break
			}
		}
		if hit == e.Neg {
			return pos, false
		}
		return pos + 1, true
	case KDot:
		if pos >= len(m.in) {
			return pos, false
		}
		return pos + 1, true
	case KSeq:
		p := pos
		mark := len(m.toks)
		for _, k := range e.Kids {
			np, ok := m.eval(k, p)
			if !ok {
				m.toks = m.toks[:mark]
				return pos, false
			}
			p = np
		}
		return p, true
	case KAlt:
		mark := len(m.toks)
		for _, k := range e.Kids {
			np, ok := m.eval(k, pos)
			if ok {
				return np, true
			}
			m.toks = m.toks[:mark]
		}
		return pos, false
	case KOpt:
		mark := len(m.toks)
		np, ok := m.eval(e.Kids[0], pos)
		if ok {
			return np, true
		}
		m.toks = m.toks[:mark]
		return pos, true
	case KStar, KPlus:
		p := pos
		count := 0
		for {
			mark := len(m.toks)
			np, ok := m.eval(e.Kids[0], p)
			if !ok {
				m.toks = m.toks[:mark]
				break
			}
			count++
			if np == p {
				// would loop forever: the grammar is not well-formed; stop (the family filter
				// excludes such grammars, this only keeps the oracle total)
				m.abort = true
				break
			}
			p = np
		}
		if e.K == KPlus && count == 0 {
			return pos, false
		}
		return p, true
	case KAnd:
		mark := len(m.toks)
		_, ok := m.eval(e.Kids[0], pos)
		m.toks = m.toks[:mark]
		return pos, ok
	case KNot:
		mark := len(m.toks)
		_, ok := m.eval(e.Kids[0], pos)
		m.toks = m.toks[:mark]
		return pos, !ok
	case KCap:
		mark := len(m.toks)
		np, ok := m.eval(e.Kids[0], pos)
		if !ok {
			m.toks = m.toks[:mark]
			return pos, false
		}
		m.add("PegText", pos, np)
		m.text = string(m.in[pos:np])
		return np, true
	case KRef:
		return m.rule(e.Rule, pos)
	case KAct:
		m.reach = append(m.reach, Ev{K: e.Idx, Text: m.text})
		// an action is a rule of its own in the token stream
		m.add(actName(e.Idx), pos, pos)
		return pos, true
	case KPred:
		if m.sw[e.Idx] {
			return pos, true
		}
		return pos, false
	case KState:
		m.n++
		return pos, true
	}
	panic("ref: unknown expression kind")
}

func inRange(r, lo, hi rune) bool {
	if r >= lo {
		if r <= hi {
			return true
		}
	}
	return false
}

// lowerS/upperS mirror strings.ToLower/ToUpper on a single ASCII rune (the documented case
// folding of [[...]]; non-ASCII endpoints are outside the family).
func lowerS(r rune) rune { return lower(r) }
func upperS(r rune) rune { return upper(r) }

// ActionTrace is the documented Execute() contract: the actions of the successful derivation
// in order, each with the most recent capture that precedes it in the derivation.
func ActionTrace(toks []Tok, in []rune) []Ev {
	var out []Ev
	text, b, e := "", 0, 0
	for _, t := range toks {
		if t.Rule == "PegText" {
			b, e = t.B, t.E
			text = string(in[b:e])
			continue
		}
		if k, ok := actionNumber(t.Rule); ok {
			out = append(out, Ev{K: k, B: b, E: e, Text: text})
		}
	}
	return out
}

func actionNumber(name string) (int, bool) {
	if len(name) <= 6 || name[:6] != "Action" {
		return 0, false
	}
	k := 0
	for i := 6; i < len(name); i++ {
		c := name[i]
		if c < '0' || c > '9' {
			return 0, false
		}
		k = k*10 + int(c-'0')
	}
	return k, true
}

// Node is a syntax-tree node in neutral form.
type Node struct {
	Rule string
	B, E int
	Kids []*Node
}

// Tree builds the derivation tree from the post-order token list by the definition, not by a
// stack: the non-empty tokens are the nodes; the parent of token i is the nearest later token
// whose span contains it; children keep input order. Returns the roots (normally one).
func Tree(toks []Tok) []*Node {
	var idx []int
	for i, t := range toks {
		if t.B != t.E {
			idx = append(idx, i)
		}
	}
	nodes := make([]*Node, len(idx))
	for k, i := range idx {
		nodes[k] = &Node{Rule: toks[i].Rule, B: toks[i].B, E: toks[i].E}
	}
	var roots []*Node
	for k := range idx {
		parent := -1
		for j := k + 1; j < len(idx); j++ {
			if nodes[j].B <= nodes[k].B && nodes[k].E <= nodes[j].E {
				parent = j
				break
			}
		}
		if parent < 0 {
			roots = append(roots, nodes[k])
		} else {
			nodes[parent].Kids = append(nodes[parent].Kids, nodes[k])
		}
	}
	return roots
}
