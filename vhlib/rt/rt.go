// Package rt holds the harness intrinsics. Under the symbolic executor (/verif/symx) every
// function here is intercepted; the bodies below are the native implementation used to replay
// solver models against the natively compiled real code.
package rt

import (
	"encoding/json"
	"fmt"
	"math/bits"
	"os"
	"reflect"
	"strings"
	"time"
)

// Case is one replay case: an entry, its concrete arguments and the solver's assignment.
type Case struct {
	Entry string            `json:"entry"`
	Args  []int             `json:"args"`
	Vars  map[string]uint64 `json:"vars"`
}

type ObsVal struct {
	ID  string `json:"id"`
	Val string `json:"val"`
}

// Outcome is what a native run of one case observed.
type Outcome struct {
	Entry        string   `json:"entry"`
	Failed       []string `json:"failed"`
	Reached      []string `json:"reached"`
	Obs          []ObsVal `json:"obs"`
	Panic        string   `json:"panic"`
	AssumeFailed bool     `json:"assume_failed"`
}

var (
	cur *Case
	out *Outcome
)

type stop struct{ why string }

func val(name string) uint64 {
	if cur == nil {
		return 0
	}
	return cur.Vars[name]
}

func Rune(name string) rune     { return rune(int32(uint32(val(name)))) }
func Int(name string) int       { return int(int64(val(name))) }
func Uint64(name string) uint64 { return val(name) }
func Uint32(name string) uint32 { return uint32(val(name)) }
func Uint8(name string) uint8   { return uint8(val(name)) }
func Bool(name string) bool     { return val(name)&1 != 0 }

// SymString returns a string of n arbitrary valid runes.
func SymString(name string, n int) string {
	rs := make([]rune, n)
	for i := range rs {
		rs[i] = rune(int32(uint32(val(fmt.Sprintf("%s_%d", name, i)))))
	}
	return string(rs)
}

func Assume(c bool) {
	if !c {
		if out != nil {
			out.AssumeFailed = true
		}
		panic(stop{"assume"})
	}
}

func Assert(id string, c bool) {
	if !c {
		if out != nil {
			out.Failed = append(out.Failed, id)
		}
		panic(stop{"assert " + id})
	}
}

func Reach(id string) {
	if out != nil {
		out.Reached = append(out.Reached, id)
	}
}

func ObserveInt(id string, v int) {
	if out != nil {
		out.Obs = append(out.Obs, ObsVal{id, fmt.Sprint(v)})
	}
}
func ObserveBool(id string, v bool) {
	if out != nil {
		out.Obs = append(out.Obs, ObsVal{id, fmt.Sprint(v)})
	}
}
func ObserveStr(id string, v string) {
	if out != nil {
		out.Obs = append(out.Obs, ObsVal{id, v})
	}
}

func And(cs ...bool) bool {
	for _, c := range cs {
		if !c {
			return false
		}
	}
	return true
}
func Or(cs ...bool) bool {
	for _, c := range cs {
		if c {
			return true
		}
	}
	return false
}
func Not(c bool) bool        { return !c }
func Implies(a, b bool) bool { return !a || b }
func Iff(a, b bool) bool     { return a == b }
func IteInt(c bool, a, b int) int {
	if c {
		return a
	}
	return b
}
func IteU64(c bool, a, b uint64) uint64 {
	if c {
		return a
	}
	return b
}
func IteRune(c bool, a, b rune) rune {
	if c {
		return a
	}
	return b
}
func IteBool(c bool, a, b bool) bool {
	if c {
		return a
	}
	return b
}
func Popcount64(x uint64) int { return bits.OnesCount64(x) }

// Actor attributes the following memory accesses to an actor (symbolic executor only).
func Actor(id int) {}

// Symbolic reports whether the harness runs under the symbolic executor.
func Symbolic() bool { return false }

// Concrete forks on the feasible values of x (symbolic executor); identity natively.
func Concrete(x int) int { return x }

// FootprintsDisjoint: write/any footprint disjointness of two actors (symbolic executor only).
func FootprintsDisjoint(a, b int) bool { return true }

// CatchPanic runs f and reports whether it panicked.
func CatchPanic(f func()) (panicked bool) {
	defer func() {
		if r := recover(); r != nil {
			if s, ok := r.(stop); ok {
				panic(s)
			}
			panicked = true
		}
	}()
	f()
	return false
}

// CatchExit runs f; under the symbolic executor os.Exit/log.Fatal inside f are caught and
// reported. Natively a process exit cannot be intercepted: such harnesses are replayed by
// running the real binary (see vcheck replay for C18).
func CatchExit(f func()) (code int, exited bool) {
	f()
	return 0, false
}

func Stderr() string { return "" }
func Stdout() string { return "" }

// SplitQuote splits s around the strconv.Quote-d part (first '"' to last '"').
func SplitQuote(s string) (before, quoted, after string) {
	i, j := strings.IndexByte(s, '"'), strings.LastIndexByte(s, '"')
	if i < 0 || j <= i {
		return s, "", ""
	}
	return s[:i], s[i : j+1], s[j+1:]
}

// Main is the native replay driver: rt.Main(map of entry name -> func) reads cases from the
// JSON file named by os.Args[1] and prints one Outcome per case as JSON lines.
func Main(entries map[string]any) {
	data, err := os.ReadFile(os.Args[1])
	if err != nil {
		fmt.Fprintln(os.Stderr, err)
		os.Exit(2)
	}
	var cases []Case
	if err := json.Unmarshal(data, &cases); err != nil {
		fmt.Fprintln(os.Stderr, err)
		os.Exit(2)
	}
	enc := json.NewEncoder(os.Stdout)
	for i := range cases {
		// each case has its own time allowance, so that a hang is blamed on the case that hangs
		// and not on whichever case happened to be running when a shared allowance ran out
		done := make(chan *Outcome, 1)
		go func() { done <- RunCase(entries, &cases[i]) }()
		select {
		case o := <-done:
			enc.Encode(o)
		case <-time.After(CaseTimeout):
			enc.Encode(&Outcome{Entry: cases[i].Entry, Panic: "timed out: the case alone ran for " + CaseTimeout.String()})
			os.Exit(3) // the goroutine cannot be stopped; the caller continues with the next case
		}
	}
}

// CaseTimeout is the native time allowance of one replayed case (a parse of the inputs used here
// takes microseconds to, for the long-input layer, about a second).
var CaseTimeout = 45 * time.Second

func RunCase(entries map[string]any, c *Case) (o *Outcome) {
	o = &Outcome{Entry: c.Entry}
	cur, out = c, o
	defer func() {
		cur, out = nil, nil
		if r := recover(); r != nil {
			if _, ok := r.(stop); ok {
				return
			}
			o.Panic = fmt.Sprint(r)
		}
	}()
	f, ok := entries[c.Entry]
	if !ok {
		o.Panic = "no such entry: " + c.Entry
		return
	}
	fv := reflect.ValueOf(f)
	in := make([]reflect.Value, fv.Type().NumIn())
	for i := range in {
		a := 0
		if i < len(c.Args) {
			a = c.Args[i]
		}
		in[i] = reflect.ValueOf(a)
	}
	fv.Call(in)
	return
}

// EnvSet/EnvGet/EnvBool talk to the symbolic executor's nondeterministic environment model
// (flags, files, front end and generator outcomes); they do nothing natively.
func EnvSet(key, val string)   {}
func EnvGet(key string) string { return "" }
func EnvBool(key string) bool  { return false }

// LastPanic is the message of the panic most recently caught by CatchPanic (symbolic executor only).
func LastPanic() string { return "" }

func EnvInt(key string) int { return 0 }

// CaptureStderr runs f and returns what was written to os.Stderr meanwhile.
func CaptureStderr(f func()) string {
	old := os.Stderr
	r, w, err := os.Pipe()
	if err != nil {
		f()
		return ""
	}
	os.Stderr = w
	done := make(chan string)
	go func() {
		var b strings.Builder
		buf := make([]byte, 4096)
		for {
			n, err := r.Read(buf)
			b.Write(buf[:n])
			if err != nil {
				break
			}
		}
		done <- b.String()
	}()
	func() {
		defer func() {
			os.Stderr = old
			w.Close()
		}()
		f()
	}()
	return <-done
}

// CaptureStdout runs f and returns what was written to os.Stdout meanwhile.
func CaptureStdout(f func()) string {
	old := os.Stdout
	r, w, err := os.Pipe()
	if err != nil {
		f()
		return ""
	}
	os.Stdout = w
	done := make(chan string)
	go func() {
		var b strings.Builder
		buf := make([]byte, 4096)
		for {
			n, err := r.Read(buf)
			b.Write(buf[:n])
			if err != nil {
				break
			}
		}
		done <- b.String()
	}()
	func() {
		defer func() {
			os.Stdout = old
			w.Close()
		}()
		f()
	}()
	return <-done
}

func EnvSetBool(key string, val bool) {}
