#!/bin/bash
# usage: importseed.sh <round-prefix> <out-dir> <Cxx> <a|b> <check>...
# e.g.   importseed.sh R4 /tmp/seed4-out C11 a C11 C12
# Confirms the change in a scratch worktree, copies it to /verif/seeded/<prefix>-<Cxx>-<v>/,
# runs the given quick checks against /repo with the change applied (undone afterwards) and
# writes meta.json. Never run while another check is reading /repo.
R="$1"; OUT="$2"; ID="$3"; V="$4"; shift 4
cd /verif
conf=$(SEEDOUT=$OUT tools/confirmseed.sh $ID/$V 2>&1 | tail -1)
echo "$conf"
D=seeded/$R-$ID-$V
rm -rf $D; mkdir -p $D; cp -r $OUT/$ID/$V/. $D/
case "$conf" in *"build=ok tests=pass demo_with=1 demo_without=0"*) ;; *"build=ok tests=pass demo_with="[1-9]*" demo_without=0"*) ;; *) echo "NOT CONFIRMED: $conf"; printf '{\n "round": "%s", "property": "%s", "variant": "%s", "status": "not-confirmed", "confirm": "%s"\n}\n' "$R" "$ID" "$V" "$conf" > $D/meta.json; exit 1;; esac
res=$(tools/seedtest.sh /verif/$D "$@" 2>&1)
echo "$res" | cut -c1-300
python3 - "$R" "$ID" "$V" "$conf" "$res" "$D" <<'PY'
import sys,json,re
R,ID,V,conf,res,D=sys.argv[1:7]
lines=[l for l in res.splitlines() if l.startswith('SEED ')]
caught=[re.search(r'CHECK (\S+)',l).group(1) for l in lines if ' exit=1 ' in l]
meta={"round":R,"property":ID,"variant":V,"status":"caught" if caught else "missed","caught_by_quick":caught,
 "base_commit":"3a7c6ac","patch":"patch.diff","needs_to_manifest":"see NOTES.md (written by the sub-agent)",
 "confirmed_in_scratch_worktree":conf,
 "how_confirmed":"tools/confirmseed.sh (fresh worktree of /repo HEAD: apply, build, suite, demo with/without); tools/seedtest.sh (apply to /repo, quick checks, reset)",
 "result":[l[:400] for l in lines]+[l[:300] for l in res.splitlines() if l.startswith('VIOLATION') or l.startswith('  ')][:8]}
json.dump(meta,open(D+'/meta.json','w'),indent=1)
print("status:",meta["status"],caught)
PY
