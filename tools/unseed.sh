#!/bin/bash
cd /repo && git reset -q --hard HEAD && git clean -fdq && git status --short
