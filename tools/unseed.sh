#!/bin/bash
cd /repo && git checkout -- . && git clean -fdq && git status --short
