#!/bin/bash
cd ${SEED_REPO:-/repo} && git reset -q --hard HEAD && git clean -fdq && git status --short
