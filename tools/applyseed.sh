#!/bin/bash
# usage: applyseed.sh <patch.diff>  — applies a seeded change to /repo's working tree (never committed).
# peg.peg.go hunks are dropped and the file is regenerated with the patched generator instead,
# because /repo has moved on from the pinned commit (fix: commits regenerate peg.peg.go).
P=$(realpath "$1")
[ -f "$P" ] || { echo "no such patch: $1"; exit 1; }
cd ${SEED_REPO:-/repo}
if ! git apply --exclude=peg.peg.go "$P" 2>/dev/null; then
  git apply --3way --exclude=peg.peg.go "$P" >/dev/null 2>&1
  if [ -n "$(git diff --name-only --diff-filter=U)" ] || git diff | grep -q '^+<<<<<<<'; then
    echo "conflict applying $P"; git reset -q --hard HEAD; exit 1
  fi
  git reset -q   # unstage what --3way staged; keep the working tree
fi
if grep -q '^diff --git a/peg.peg.go' "$P"; then
  T=$(mktemp -d)
  GOFLAGS=-mod=mod GOPROXY=off go build -o $T/peg . || { echo "build failed"; rm -rf $T; exit 1; }
  $T/peg -inline -switch peg.peg
  GOFLAGS=-mod=mod GOPROXY=off go build -o $T/peg2 . && $T/peg2 -inline -switch peg.peg
  rm -rf $T
fi
git status --short
