#!/bin/bash
# usage: applyseed.sh <patch.diff>  — applies a seeded change to /repo's working tree (never committed).
# peg.peg.go hunks are dropped and the file is regenerated with the patched generator instead,
# because /repo has moved on from the pinned commit (fix: commits regenerate peg.peg.go).
set -e
P="$1"
cd /repo
git apply --exclude=peg.peg.go "$P" 2>/dev/null || git apply --3way --exclude=peg.peg.go "$P"
if grep -q '^diff --git a/peg.peg.go' "$P"; then
  T=$(mktemp -d)
  GOFLAGS=-mod=mod GOPROXY=off go build -o $T/peg . 
  $T/peg -inline -switch peg.peg
  # second round so that the front end itself is built from the regenerated file (fixed point)
  GOFLAGS=-mod=mod GOPROXY=off go build -o $T/peg2 . && $T/peg2 -inline -switch peg.peg
  rm -rf $T
fi
git status --short
