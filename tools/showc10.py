import json,glob
for f in sorted(glob.glob('/verif/replays/C1[07]*.json')):
    d=json.load(open(f))
    st=d.get('strings') or {}
    print(d['entry'],d['args'],d['assert_id'],{k:[chr(c) if 32<=c<127 else hex(c) for c in v] for k,v in st.items()})
    for o in (d.get('engine_observations') or []): print('   ',o['id'],repr(o['val'])[:300])
