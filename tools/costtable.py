#!/usr/bin/env python3
"""Prints a markdown table of what each check covered, from /verif/evidence/*.json (quick tier as
last run) and, if given, a thorough-sweep log (lines '<id> thorough: instances=... wall=...')."""
import json, glob, re, sys
th = {}
if len(sys.argv) > 1:
    for l in open(sys.argv[1]):
        m = re.match(r'(C\d\d) thorough: instances=(\d+) paths=(\d+) .*queries=(\d+) .*violations=(\d+) known=\d+ inconclusive=(\d+) wall=([\d.]+)s', l)
        if m:
            th[m.group(1)] = m.groups()[1:]
print("| check | quick: instances | paths | solver queries | validated natively | wall | thorough: instances | paths | queries | wall |")
print("|---|---|---|---|---|---|---|---|---|---|")
for f in sorted(glob.glob('/verif/evidence/C*.json')):
    e = json.load(open(f)); c = e['coverage']; q = c.get('queries', {})
    nq = sum(v for k, v in q.items() if isinstance(v, int) and k in ('sat', 'unsat', 'unknown')) if isinstance(q, dict) else q
    t = th.get(e['property_id'])
    tcols = f"{int(t[0]):,} | {int(t[1]):,} | {int(t[2]):,} | {float(t[5]):.0f} s" + (" (inconclusive: %s)" % t[4] if t[4] != '0' else "") if t else "— | — | — | —"
    print(f"| {e['property_id']} ({e['tier']}) | {c.get('harness_instances',0):,} | {c.get('states',0):,} | {nq:,} | {c.get('traces_validated_against_impl',0):,} | {e.get('wall_s',0):.0f} s | {tcols} |")
