#!/bin/bash
# usage: regress_seeds.sh [seed-dir-glob]   — re-runs every stored seeded change against a scratch
# clone of /repo (never /repo itself) with the quick tier of the check(s) recorded for it, and
# prints one line per seed: CAUGHT / MISSED / NOAPPLY / OUTSIDE.
cd /verif
export SEED_REPO=${SEED_REPO:-/tmp/seedrepo}
[ -d $SEED_REPO/.git ] || git clone -q /repo $SEED_REPO
git -C $SEED_REPO fetch -q /repo main && git -C $SEED_REPO reset -q --hard FETCH_HEAD && git -C $SEED_REPO clean -fdq
for d in ${1:-seeded/*}; do
  n=$(basename $d)
  [ -f $d/patch.diff ] || continue
  case $n in _*|*base-findings) continue;; esac
  st=$(jq -r '.status // ""' $d/meta.json 2>/dev/null)
  case "$st" in outside*|not-kept|not-confirmed) echo "OUTSIDE $n ($st)"; continue;; esac
  own=$(echo $n | grep -o 'C[0-9][0-9]' | head -1)
  # the property's own check first, then every other check the record mentions
  checks="$own $(jq -r '[(.caught_by_quick // [])[], ((.result // []) | tostring)] | join(" ")' $d/meta.json 2>/dev/null | grep -o 'C[0-9][0-9]' | grep -v "^$own\$" | awk '!s[$0]++' | tr '\n' ' ')"
  P=$d/patch.diff; [ -f $d/rebased.diff ] && P=$d/rebased.diff
  if ! tools/applyseed.sh $P > /tmp/applyseed.log 2>&1; then echo "NOAPPLY $n"; tools/unseed.sh >/dev/null; continue; fi
  res=MISSED
  for c in $checks; do
    out=$(VERIF_REPO=$SEED_REPO bin/vcheck run $c --tier quick 2>&1); code=$?
    if [ $code = 1 ] && echo "$out" | grep -q '^VIOLATION'; then res="CAUGHT by $c"; break; fi
    res="MISSED ($c exit=$code)"
  done
  echo "$res $n"
  tools/unseed.sh >/dev/null
  rm -f /verif/replays/*.json
done
