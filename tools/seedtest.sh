#!/bin/bash
# usage: seedtest.sh <seed-dir> <check-id>...   e.g. seedtest.sh /tmp/seed-out/C03/a C03 C04
# Applies the seeded change to /repo, runs the given checks (quick), prints their verdict lines, undoes the change.
# With SEED_REPO=<scratch clone of /repo> the change is applied there instead and the checks read
# that tree (VERIF_REPO), so that /repo itself stays untouched while other runs are reading it.
S="$1"; shift
R=${SEED_REPO:-/repo}
export VERIF_REPO=$R
cd /verif
if ! tools/applyseed.sh "$S/patch.diff" > /tmp/applyseed.log 2>&1; then echo "APPLY-FAILED $S"; cat /tmp/applyseed.log | tail -5; tools/unseed.sh >/dev/null; exit 2; fi
(cd $R && GOFLAGS=-mod=mod GOPROXY=off go test -vet=off -count=1 ./ ./set 2>&1 | tail -2 | tr '\n' ' '); echo
for c in "$@"; do
  out=$(bin/vcheck run $c --tier quick 2>&1)
  code=$?
  nv=$(echo "$out" | grep -c '^VIOLATION')
  echo "SEED $S CHECK $c exit=$code violations=$nv :: $(echo "$out" | grep "^$c quick" | cut -c1-200)"
  echo "$out" | grep -A1 '^VIOLATION' | grep -v '^--' | head -4 | cut -c1-260
  echo "$out" | grep '^INCONCLUSIVE' | head -3 | cut -c1-260
done
tools/unseed.sh >/dev/null
rm -f /verif/replays/*.json
