#!/usr/bin/env python3
"""Regenerates /verif/MANIFEST.json from the table below (kept next to the checks it describes)."""
import json, sys
ids = [json.loads(l)["id"] for l in open("/verif/properties.jsonl")]
TECH = "symbolic execution of the real code's go/ssa (own executor /verif/symx) + SMT (QF_BV, cvc5 1.0.3 incremental); counterexamples replayed natively"
NOTE_COMMON = ("Trusted: go/ssa + go/types (x/tools v0.50.0, go1.26.8) translate the source faithfully; cvc5 answers are correct (thorough tier cross-checks the query transcript with z3); "
               "the executor's models of the stubbed library calls listed in evidence.stubs_hit. Every run validates sampled paths by executing the solver's model natively and comparing observations. ")
FAM = ("Grammars are an enumerated family regenerated on every run with the peg built from /repo's working tree (every well-formed expression of size <= 3 plus a seeded sample of size 4 (quick) / every one of size <= 4 plus a seeded sample of 2500 of size 5 (thorough) over a small leaf set, "
       "24 terminal kinds in 18 contexts, ~70 curated shapes, an end-of-input lookahead layer, multi-rule outlines: ~740 grammars quick, ~5700 thorough); the solver quantifies over ALL inputs of length 0..N "
       "(N=5 quick, 6-7 thorough; one more on the curated shapes), each rune any Unicode scalar value, and over the predicate switches. A long-input layer (11 loop/recursion grammars, one with 260 rules) adds inputs of "
       "17..260 runes (thorough: up to 1000, and 65535/65536 where the token count is constant) that are a concrete filler except for two arbitrary runes. ")
ORACLE = "Oracle: an independent ~300-line transcription of PEG semantics (vhlib/ref) executed symbolically on the same input. "
FAM_SMALL = ("Grammars: the curated shapes, the long-input layer and a seeded sample of the rest of the family (about 120 grammars quick, 380 thorough), regenerated on every run with the peg built from /repo's working tree; "
             "each fully symbolic input has 0..3 runes (any Unicode scalar value). ")
def g(text, extra="", fam=None):
    return dict(text=text, note=NOTE_COMMON + (fam or FAM) + extra, design="DESIGN.md 4")
checks = {
 "C01": g("Bounded symbolic model checking of each generated parser (default options): for every family grammar, every entry rule and every input up to N runes the verdict and the consumed prefix equal the reference PEG semantics. " + ORACLE +
          "Right level: restore/lookahead/range-bound mistakes only show on particular inputs, which are solver variables here; the grammar dimension cannot be symbolic because the generator emits text."),
 "C02": g("Differential bounded model checking: the parsers generated with -inline, -switch and -inline -switch are executed symbolically next to the default parser on the same symbolic input; verdict and full token list must agree on every path; a variant that does not generate or compile is a violation."),
 "C03": g("From every entry rule (Parse() and Parse(rule)), the real parser's Tokens() after every accepting path are compared element-wise (rule, begin, end in runes) with the post-order derivation of the reference semantics. " + ORACLE),
 "C04": g("Execute() of the real parser with probe actions is run symbolically; the recorded trace (action number, begin, end, text as a symbolic string) must equal the derivation's action list with the most recent preceding capture; a second Execute must repeat it."),
 "C05": g("AST() is walked (up/next) and compared with the tree defined directly from the token spans; SprintSyntaxTree output (fmt/strconv.Quote modelled, Quote uninterpreted) must equal the expected lines; AST/print must not disturb the tokens."),
 "C06": g("The same generated parser is run with and without DisableMemoize on the same symbolic input (fresh, and reused after a first input and Reset): verdict, tokens, printed tree and (on failure) the error token must agree, and agree with the reference; evidence counts paths on which the reference re-entered a (rule, offset) pair (memo hits)."),
 "C07": g("The four -noast variants are run next to the default parser: verdicts must agree on every path; for -noast and -noast -inline the inline action trace (action number, text) must equal the reference's evaluation-order trace; under -switch each event's text must be a span of the input."),
 "C11": g("Failing paths: err != nil iff the reference rejects; the error token equals the reference's first non-empty token reaching the furthest end and lies in the input; Error() is executed symbolically (fmt/Quote modelled) and must name the rule, the 1-based line/column of begin and end (newline placement is a solver variable) and quote exactly input[begin:end]; also after Reset with a second input."),
 "C12": g("One long-lived parser is fed 2 (thorough: 3) independent symbolic inputs via Buffer/Reset and compared step by step (verdict, tokens, action trace, printed tree, error token and message) with a fresh parser; Size in {unset,1,64}; the four instantiations uint16/uint32/uint64/uint x Size {unset,0,1,64} must agree.",
          "Histories of <= 3 fully symbolic inputs of <= 3 runes (some also with memoisation disabled); on the long-input layer also reuse across lengths (L then 2, 2 then L, L twice) and the narrow instantiations at the edge of their range: uint8 at 100..255 runes, uint16 at 255..300 (thorough 65534, 65535), compared with uint32. 'Fits U' is read as: rune count and token count fit. ", fam=FAM_SMALL),
 "C13": g("All eight option sets of every family grammar are run on every input up to N runes (incl. U+0000, U+FFFD, non-BMP, U+10FFFF as solver-chosen values): any Go panic (nil dereference, index/slice out of range) on any path is a violation; token and error-token spans must lie in [0, len(runes)]; Error(), the printers and Execute are exercised.",
          "'Very long' is covered only through the long-input layer (all but two runes concrete); fully symbolic inputs have N <= 7. Thorough also runs the shipped calculator/fexl/longtest grammars (no panic, spans inside the input). "),
 "C14": g("Two instances (same parser type, two different parser packages, and two instances initialised with the SAME option values) make their API calls (init, parse, execute/print/error) in every merge order of the enumerated set; each instance's observables must equal its run-alone observables and the actors' heap footprints must be write-disjoint.",
          "Non-interference argument (disjoint write footprints => any real schedule is equivalent to a sequential one), not scheduler exploration; sync.Pool is modelled as handing out the most recently Put item. ", fam=FAM_SMALL),
 "C10": dict(
   text="The shipped front end (peg.peg.go with the real tree-builder actions) is executed symbolically on 27 templates of documented constructs whose 1-3 hole characters are solver variables (any code point), and on K arbitrary characters after a valid header, inside an action, inside a class and after the last rule; "
        "next to it an independent recursive-descent reader of the documented syntax (vhlib/pegread) runs on the same text: accept/reject must agree, the tree reachable through the exported accessors must denote what the reader denotes "
        "(escapes incl. octal/hex code points, case-insensitive expansion, negation, precedence, comments, arrows, imports, nested braces), an accepted text must leave a well-formed tree (no corrupted builder stack), and nothing may panic.",
   note=NOTE_COMMON + "Bounds: templates + holes, tails K <= 2 (quick) / 3 (thorough). Assumed away where the documentation is silent: upper-case escape letters, a caret directly followed by the closing bracket ('[^]'), non-ASCII letters in \"...\" / [[...]], ']' '-' '^' '\\' as raw class members. Sequence and choice are compared up to associativity.",
   design="DESIGN.md 4/C10"),
 "C17": dict(
   text="REDUCED CLAIM: the front end is regenerated from peg.peg under the four -inline/-switch option sets with the peg built from the working tree (must succeed under -strict); the four regenerated front ends and the checked-in peg.peg.go are executed symbolically on the same grammar text with K symbolic characters: "
        "same verdict, same token list and same resulting tree. The shipped example grammars are generated under -strict with the four option sets, whose parsers must agree (verdict, tokens) on every input of <= N runes and on their sample inputs with two positions replaced by arbitrary runes. Byte-for-byte reproduction of peg.peg.go by the bootstrap chain is NOT covered (closed concrete computation; see DESIGN.md 5).",
   note=NOTE_COMMON + "K <= 2 (quick) / 3 (thorough) symbolic characters in two text shapes; shipped grammars: calculator, fexl, longtest (quick) plus c and java (thorough), N = 2..4, 4/12 seeded position pairs per sample.",
   design="DESIGN.md 4/C17, 5"),
 "C15": dict(
   text="The real (*tree.Tree).Compile (first/second pass, link, countRules, checkRecursion, the emission loop's diagnostics, Strict epilogue) is executed symbolically on skeleton grammars built through the exported builder, "
        "with the operator labels (? * + & ! <>, choice/sequence, terminal kinds), -inline and Strict as solver variables, against an independent analysis (definedness, reachability, Ford-style left recursion incl. nullable prefixes and all operators): "
        "'used but not defined' and 'defined but not used' must name exactly the right rules, a left-recursive rule must be named and no left-recursion warning may appear in a grammar without one, "
        "Strict turns any diagnostic into an error, a clean grammar is silent, a duplicate definition is diagnosed without a crash.",
   note=NOTE_COMMON + "Skeletons: 1-3 rules, 7 body shapes, every wiring of name leaves for one rule, seeded samples for 2-3 rules, curated recursive-reference-behind-a-second-rule pairs, 14x14 duplicate-definition pairs; text/template, go/parser, go/printer stubbed; labels are concretised where the code indexes by them (exhaustive per skeleton). The -strict exit status is C18's harness.",
   design="DESIGN.md 4/C15"),
 "C09": dict(
   text="REDUCED CLAIM (DESIGN.md 5): on the C15 skeletons one generation is run with its two analysis tasks in both orders (symbolic boolean) and every map range in every permutation, each task under its own actor: "
        "diagnostics/error/output must equal those of a reference generation, the two tasks' write footprints must be disjoint from each other's accesses, and two generations of independent trees must not share written state. "
        "Disjoint footprints make every finer interleaving equivalent to one of the two sequential orders. Counterexamples and samples are re-run natively 12x under the Go race detector.",
   note=NOTE_COMMON + "Not covered: the real scheduler, GOMAXPROCS, cross-process byte identity of the emitted file (template/printer are stubs symbolically; compared natively only).",
   design="DESIGN.md 4/C09, 5"),
 "C16": dict(
   text="Bounded model checking of the real set/set.go: every exported operation after every history of <= k AddRange/Add calls with ARBITRARY arguments over all code points "
        "(membership, union, intersects, complement, extensional equality, operands unmodified, no aliasing) and over a small universe for Len/String; the solver quantifies over all endpoints, limits and probe elements. "
        "Right level because the interval list's case analysis only goes wrong for particular orderings/boundaries, which are solver variables here.",
   note=NOTE_COMMON + "Bounds: histories of <= 2-3 (quick) / <= 4 (thorough) insertions per set, plus one step (AddRange, every read-only operation) from an ARBITRARY valid interval list of <= 3 (thorough 4) intervals, which covers histories of any length reaching such lists; Len over elements 0..7, String over 0..5; precondition 0 <= begin <= end <= 0x110000 (code points and the end symbol); Complement with elements on both sides of the limit.",
   design="DESIGN.md 4/C16"),
 "C18": dict(
   text="main.main/getIO/parse are executed symbolically under a nondeterministic environment: flags are symbolic booleans, every open/read/parse/compile/flush/close outcome is a fresh symbolic boolean, "
        "so every combination of faults is explored; exit status 0 must imply no fault, the requested source and destination, a truncating open and the options reaching the generator. Sampled paths and every counterexample are re-run with the REAL binary in a matching real environment.",
   note=NOTE_COMMON + "The front end and Compile are fault points here; that Compile returns nil only after the whole formatted parser was accepted by the destination writer is checked separately by running the real Compile into a writer that may reject any write (entry CompileWrites). The error the Compile stub returns is class-opaque: errors.As / errors.Is on it fork on a symbolic choice, so a main that lets some class of Compile errors through to exit 0 is explored; such a path is reported only after one of three concrete realisations of the compile fault (action not Go; the same in a warned grammar; warned grammar with a destination that rejects writes) reproduced it with the real binary. Environment facts (missing input, not a regular file, newer destination) are symbolic choices distinct from faults. Flag parsing is stubbed.",
   design="DESIGN.md 4/C18"),
}
NA = {
 "C08": "the property is about emitted text being valid, gofmt-canonical Go for every accepted grammar: its verdict is pronounced by go/parser, go/types and go/printer on text produced through fmt and text/template, none of which can be encoded within reach, and the only quantified variable (the grammar) cannot be symbolic; by-product only: every generated file of every family grammar and option set is type-checked when loaded and a failure is reported under C01/C02/C07 (DESIGN.md 5)",
}
m = {"version": 1,
 "setup_cmd": "cd /verif && PATH=/opt/veriftools/go1.26.8/bin:$PATH GOFLAGS=-mod=mod GOPROXY=off GOTOOLCHAIN=local go build -o bin/vcheck ./cmd/vcheck",
 "hooks": {"guard": "verif", "enable": "no hooks in /repo: harness files are added to a scratch copy of /repo's current working tree at run time; /repo is never written by a check",
           "baseline_off_cmd": "cd /repo && GOFLAGS=-mod=mod GOPROXY=off go test -vet=off -count=1 ./ ./set ./tree", "source_commits": [], "add_only": True},
 "engines": [{"name": "symx", "path": "/verif/symx", "serves_properties": sorted(checks), "kind_free_text": "path-wise symbolic executor for go/ssa (written here) with an incremental SMT back end (cvc5; z3 for cross-checking)"}],
 "checks": [], "not_applicable": [],
 "notes": "All checks: exit 0 = held on everything explored; exit 1 + VIOLATION line = natively reproduced counterexample; exit 3 = inconclusive (never success). See DESIGN.md."}
for i in ids:
    if i in checks:
        c = checks[i]
        m["checks"].append({"property_id": i, "quick_cmd": f"bin/vcheck run {i} --tier quick", "thorough_cmd": f"bin/vcheck run {i} --tier thorough",
            "evidence_file": f"/verif/evidence/{i}.json", "replay_cmd_template": "bin/vcheck replay {path}", "engine": "symx",
            "level_claimed": {"category": "model_checking", "text": c["text"], "design_ref": c["design"]}, "level_note": c["note"], "technique": TECH})
    else:
        m["not_applicable"].append({"property_id": i, "reason": NA.get(i, "harness not yet built (work in progress; see DESIGN.md section 9)")})
json.dump(m, open("/verif/MANIFEST.json", "w"), indent=1)
print("checks:", [c["property_id"] for c in m["checks"]], "n/a:", len(m["not_applicable"]))
