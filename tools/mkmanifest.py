#!/usr/bin/env python3
"""Regenerates /verif/MANIFEST.json from the table below (kept next to the checks it describes)."""
import json, sys
ids = [json.loads(l)["id"] for l in open("/verif/properties.jsonl")]
TECH = "symbolic execution of the real code's go/ssa (own executor /verif/symx) + SMT (QF_BV, cvc5 1.0.3 incremental); counterexamples replayed natively"
NOTE_COMMON = ("Trusted: go/ssa + go/types (x/tools v0.50.0, go1.26.8) translate the source faithfully; cvc5 answers are correct (thorough tier cross-checks the query transcript with z3); "
               "the executor's models of the stubbed library calls listed in evidence.stubs_hit. Every run validates sampled paths by executing the solver's model natively and comparing observations. ")
checks = {
 "C16": dict(
   text="Bounded model checking of the real set/set.go: every exported operation after every history of <= k AddRange/Add calls with ARBITRARY arguments over all code points "
        "(membership, union, intersects, complement, extensional equality, operands unmodified, no aliasing) and over a small universe for Len/String; the solver quantifies over all endpoints, limits and probe elements. "
        "Right level because the interval list's case analysis only goes wrong for particular orderings/boundaries, which are solver variables here.",
   note=NOTE_COMMON + "Bounds: histories of <= 2 (quick) / <= 4 (thorough) insertions per set; Len over elements 0..7, String over 0..5; precondition 0 <= begin <= end <= 0x10FFFF.",
   design="DESIGN.md 4/C16"),
}
NA = {
}
m = {"version": 1,
 "setup_cmd": "cd /verif && PATH=/opt/veriftools/go1.26.8/bin:$PATH GOFLAGS=-mod=mod GOPROXY=off GOTOOLCHAIN=local go build -o bin/vcheck ./cmd/vcheck",
 "hooks": {"guard": "verif", "enable": "no hooks in /repo: harness files are added to a scratch copy of /repo's current working tree at run time; /repo is never written by a check",
           "baseline_off_cmd": "cd /repo && GOFLAGS=-mod=mod GOPROXY=off go test -vet=off -count=1 ./ ./set ./tree", "source_commits": [], "add_only": True},
 "engines": [{"name": "symx", "path": "/verif/symx", "serves_properties": sorted(checks), "kind_free_text": "path-wise symbolic executor for go/ssa (written here) with an incremental SMT back end (cvc5; z3 for cross-checking)"}],
 "checks": [], "not_applicable": [],
 "notes": "All checks: exit 0 = held on everything explored; exit 1 + VIOLATION line = natively reproduced counterexample; exit 3 = inconclusive (never success). See DESIGN.md."}
for i in ids:
    if i in checks:
        c = checks[i]
        m["checks"].append({"property_id": i, "quick_cmd": f"bin/vcheck run {i} --tier quick", "thorough_cmd": f"bin/vcheck run {i} --tier thorough",
            "evidence_file": f"/verif/evidence/{i}.json", "replay_cmd_template": "bin/vcheck replay {path}", "engine": "symx",
            "level_claimed": {"category": "model_checking", "text": c["text"], "design_ref": c["design"]}, "level_note": c["note"], "technique": TECH})
    else:
        m["not_applicable"].append({"property_id": i, "reason": NA.get(i, "harness not yet built (work in progress; see DESIGN.md section 9)")})
json.dump(m, open("/verif/MANIFEST.json", "w"), indent=1)
print("checks:", [c["property_id"] for c in m["checks"]], "n/a:", len(m["not_applicable"]))
