#!/bin/bash
# usage: confirmseed.sh <Cxx/v>  — confirms a seeded change in a scratch worktree of /repo's HEAD:
# applies, builds, runs the repo's tests, runs the demo with the change (must fail) and without (must pass).
S="$1"; D=${SEEDOUT:-/tmp/seed-out}/$S; W=/tmp/cs/$(echo $S | tr / -)
rm -rf $W; git -C /repo worktree prune; git -C /repo worktree add -q --detach $W HEAD || exit 2
res="seed=$S"
cd $W
if ! git apply --exclude=peg.peg.go $D/patch.diff 2>/dev/null; then
  git apply --3way --exclude=peg.peg.go $D/patch.diff >/dev/null 2>&1
  if [ -n "$(git diff --name-only --diff-filter=U)" ]; then echo "$res apply=CONFLICT"; cd /; git -C /repo worktree remove --force $W; exit 1; fi
  git reset -q
fi
if grep -q '^diff --git a/peg.peg.go' $D/patch.diff; then
  T=$(mktemp -d); GOFLAGS=-mod=mod GOPROXY=off go build -o $T/peg . && $T/peg -inline -switch peg.peg && GOFLAGS=-mod=mod GOPROXY=off go build -o $T/peg2 . && $T/peg2 -inline -switch peg.peg; rm -rf $T
fi
res="$res apply=ok"
if GOFLAGS=-mod=mod GOPROXY=off go build ./ ./set ./tree >/dev/null 2>&1; then res="$res build=ok"; else res="$res build=FAIL"; fi
if GOFLAGS=-mod=mod GOPROXY=off go test -vet=off -count=1 . ./set ./tree >/dev/null 2>&1; then res="$res tests=pass"; else res="$res tests=FAIL"; fi
git diff > /tmp/cs/$(echo $S | tr / -).rebased.diff
(cd $D && timeout 600 bash demo.sh $W >/dev/null 2>&1); res="$res demo_with=$?"
git checkout -q -- . ; git clean -fdq
(cd $D && timeout 600 bash demo.sh $W >/dev/null 2>&1); res="$res demo_without=$?"
cd /; git -C /repo worktree remove --force $W
echo "$res"
