// Package c16 holds the C16 harnesses: the real set package against an independent
// specification of "finite set of code points given as a union of intervals".
// Entry points are executed symbolically by /verif/symx and natively for replay.
//
// The specification is written with comparisons only (no shifts, no popcount) so that every
// query is a small QF_BV problem:
//   membership  in(x)      = OR_i (b_i <= x <= e_i)                  full code-point range
//   cardinality card()     = SUM_{v=0..LU} [in(v)]                    small universe 0..LU
//   extensional equality   = each interval of one side is covered by the other side, decided
//                            at its critical points (its begin and every e'_j+1 inside it)
package c16

import (
	"fmt"

	"github.com/pointlander/peg/set"
	"vhlib/rt"
)

const (
	MaxCP = 0x110000 // full universe: all code points and the end symbol 0x110000 the generator stores in sets
	LU    = 7        // small universe for cardinality
	SU    = 5        // tiny universe for String (every element is printed)
)

type iv struct{ b, e rune }

func in(ivs []iv, x rune) bool {
	r := false
	for _, v := range ivs {
		r = rt.Or(r, rt.And(v.b <= x, x <= v.e))
	}
	return r
}

func card(ivs []iv, u rune) int {
	n := 0
	for v := rune(0); v <= u; v++ {
		n += rt.IteInt(in(ivs, v), 1, 0)
	}
	return n
}

// covered: interval i is a subset of the union of js.
func covered(i iv, js []iv) bool {
	ok := in(js, i.b)
	for _, j := range js {
		p := j.e + 1
		ok = rt.And(ok, rt.Implies(rt.And(i.b <= p, p <= i.e), in(js, p)))
	}
	return ok
}

func subset(as, bs []iv) bool {
	ok := true
	for _, a := range as {
		ok = rt.And(ok, covered(a, bs))
	}
	return ok
}

func overlaps(as, bs []iv) bool {
	r := false
	for _, a := range as {
		for _, b := range bs {
			r = rt.Or(r, rt.And(a.b <= b.e, b.b <= a.e))
		}
	}
	return r
}

// build applies k AddRange calls with arbitrary arguments 0 <= b <= e <= hi.
func build(prefix string, k int, hi rune) (*set.Set, []iv) {
	s := set.NewSet()
	var ivs []iv
	for i := 0; i < k; i++ {
		b := rt.Rune(fmt.Sprintf("%sb%d", prefix, i))
		e := rt.Rune(fmt.Sprintf("%se%d", prefix, i))
		rt.Assume(rt.And(0 <= b, b <= e, e <= hi))
		s.AddRange(b, e)
		ivs = append(ivs, iv{b, e})
	}
	return s, ivs
}

func probe(name string, hi rune) rune {
	x := rt.Rune(name)
	rt.Assume(rt.And(0 <= x, x <= hi))
	return x
}

func newRange(prefix string, hi rune) iv {
	b := rt.Rune(prefix + "b")
	e := rt.Rune(prefix + "e")
	rt.Assume(rt.And(0 <= b, b <= e, e <= hi))
	return iv{b, e}
}

// ---- full code-point range: membership-level behaviour ----

func Has(k int) {
	s, ivs := build("a", k, MaxCP)
	x := probe("x", MaxCP)
	got := s.Has(x)
	rt.ObserveBool("has", got)
	rt.Assert("addrange/has", got == in(ivs, x))
	rt.Reach("has/done")
}

// AddOne: Add(a) inserts exactly a.
func AddOne(k int) {
	s, ivs := build("a", k, MaxCP)
	a := probe("a", MaxCP)
	s.Add(a)
	ivs = append(ivs, iv{a, a})
	x := probe("x", MaxCP)
	rt.Assert("add/has", s.Has(x) == in(ivs, x))
	rt.Reach("add/done")
}

func Copy(k int) {
	s, ivs := build("a", k, MaxCP)
	c := s.Copy()
	x := probe("x", MaxCP)
	rt.Assert("copy/has", c.Has(x) == in(ivs, x))
	// mutating the copy leaves the original alone, and vice versa
	n := newRange("c", MaxCP)
	c.AddRange(n.b, n.e)
	rt.Assert("copy/orig-after-mutating-copy/has", s.Has(x) == in(ivs, x))
	rt.Assert("copy/mutated/has", c.Has(x) == in(append(ivs[:len(ivs):len(ivs)], n), x))
	m := newRange("d", MaxCP)
	s.AddRange(m.b, m.e)
	rt.Assert("copy/copy-after-mutating-orig/has", c.Has(x) == in(append(ivs[:len(ivs):len(ivs)], n), x))
	rt.Reach("copy/done")
}

func Union(k1, k2 int) {
	a, ia := build("a", k1, MaxCP)
	b, ib := build("b", k2, MaxCP)
	u := a.Union(b)
	x := probe("x", MaxCP)
	got := u.Has(x)
	rt.ObserveBool("has", got)
	rt.Assert("union/has", got == rt.Or(in(ia, x), in(ib, x)))
	rt.Assert("union/left-operand/has", a.Has(x) == in(ia, x))
	rt.Assert("union/right-operand/has", b.Has(x) == in(ib, x))
	rt.Reach("union/done")
}

// UnionAlias: the result of Union shares no structure with an operand (mutating one never
// shows through the other).
func UnionAlias(k1, k2 int) {
	a, ia := build("a", k1, MaxCP)
	b, ib := build("b", k2, MaxCP)
	u := a.Union(b)
	n := newRange("n", MaxCP)
	u.AddRange(n.b, n.e)
	x := probe("x", MaxCP)
	rt.Assert("unionalias/result/has", u.Has(x) == rt.Or(in(ia, x), in(ib, x), in([]iv{n}, x)))
	rt.Assert("unionalias/left-operand/has", a.Has(x) == in(ia, x))
	rt.Assert("unionalias/right-operand/has", b.Has(x) == in(ib, x))
	m := newRange("m", MaxCP)
	a.AddRange(m.b, m.e)
	rt.Assert("unionalias/result-after-mutating-operand/has", u.Has(x) == rt.Or(in(ia, x), in(ib, x), in([]iv{n}, x)))
	rt.Reach("unionalias/done")
}

func Intersects(k1, k2 int) {
	a, ia := build("a", k1, MaxCP)
	b, ib := build("b", k2, MaxCP)
	got := a.Intersects(b)
	rt.ObserveBool("intersects", got)
	rt.Assert("intersects", got == overlaps(ia, ib))
	x := probe("x", MaxCP)
	rt.Assert("intersects/left-operand/has", a.Has(x) == in(ia, x))
	rt.Assert("intersects/right-operand/has", b.Has(x) == in(ib, x))
	rt.Reach("intersects/done")
}

func Complement(k int) {
	lim := probe("lim", MaxCP)
	s, ivs := build("a", k, MaxCP) // elements on both sides of the limit
	c := s.Complement(lim)
	x := probe("x", MaxCP)
	got := c.Has(x)
	rt.ObserveBool("has", got)
	rt.Assert("complement/has", got == rt.And(x <= lim, rt.Not(in(ivs, x))))
	rt.Assert("complement/operand/has", s.Has(x) == in(ivs, x))
	rt.Reach("complement/done")
}

func Equal(k1, k2 int) {
	a, ia := build("a", k1, MaxCP)
	b, ib := build("b", k2, MaxCP)
	got := a.Equal(b)
	rt.ObserveBool("equal", got)
	rt.Assert("equal", got == rt.And(subset(ia, ib), subset(ib, ia)))
	rt.Reach("equal/done")
}

// ---- small universe: cardinality, String ----

func Len(k int) {
	s, ivs := build("a", k, LU)
	got := s.Len()
	rt.ObserveInt("len", got)
	rt.Assert("addrange/len", got == card(ivs, LU))
	c := s.Copy()
	rt.Assert("copy/len", c.Len() == card(ivs, LU))
	rt.Reach("len/done")
}

func UnionLen(k1, k2 int) {
	a, ia := build("a", k1, LU)
	b, ib := build("b", k2, LU)
	u := a.Union(b)
	rt.Assert("union/len", u.Len() == card(append(ia[:len(ia):len(ia)], ib...), LU))
	rt.Assert("union/left-operand/len", a.Len() == card(ia, LU))
	rt.Assert("union/right-operand/len", b.Len() == card(ib, LU))
	rt.Reach("unionlen/done")
}

func ComplementLen(k int) {
	lim := probe("lim", LU)
	s, ivs := build("a", k, LU) // elements on both sides of the limit
	c := s.Complement(lim)
	got := c.Len()
	rt.ObserveInt("len", got)
	inside := 0
	for v := rune(0); v <= LU; v++ {
		inside += rt.IteInt(rt.And(v <= lim, rt.Not(in(ivs, v))), 1, 0)
	}
	rt.Assert("complement/len", got == inside)
	rt.Assert("complement/operand/len", s.Len() == card(ivs, LU))
	rt.Reach("complementlen/done")
}

func String(k int) {
	s, ivs := build("a", k, SU)
	str := s.String()
	rt.ObserveStr("string", str)
	// parse "[a b c]" back into a bit set; elements must be ascending decimal numbers
	ok := len(str) >= 2 && str[0] == '[' && str[len(str)-1] == ']'
	var got [SU + 1]bool
	last := -1
	if ok {
		body := str[1 : len(str)-1]
		i := 0
		for i < len(body) {
			if i > 0 {
				if body[i] != ' ' {
					ok = false
					break
				}
				i++
			}
			n, digits := 0, 0
			for i < len(body) && body[i] >= '0' && body[i] <= '9' {
				n = n*10 + int(body[i]-'0')
				i++
				digits++
			}
			if digits == 0 || n <= last || n > SU {
				ok = false
				break
			}
			last = n
			got[n] = true
		}
	}
	rt.Assert("string/format", ok)
	same := true
	for v := rune(0); v <= SU; v++ {
		same = rt.And(same, got[v] == in(ivs, v))
	}
	rt.Assert("string/elements", same)
	rt.Reach("string/done")
}

// Empty: no operation panics on the empty set, and each reports the empty set's answer.
func Empty() {
	e1, e2 := set.NewSet(), set.NewSet()
	x := probe("x", MaxCP)
	rt.Assert("empty/has", !e1.Has(x))
	rt.Assert("empty/len", e1.Len() == 0)
	rt.Assert("empty/string", e1.String() == "[]")
	c := e1.Copy()
	rt.Assert("empty/copy/len", c.Len() == 0)
	rt.Assert("empty/copy/has", !c.Has(x))
	rt.Assert("empty/copy/string", c.String() == "[]")
	rt.Assert("empty/equal", e1.Equal(e2))
	rt.Assert("empty/intersects", !e1.Intersects(e2))
	u := e1.Union(e2)
	rt.Assert("empty/union/len", u.Len() == 0)
	rt.Assert("empty/union/string", u.String() == "[]")
	lim := probe("lim", MaxCP)
	k := e1.Complement(lim)
	rt.Assert("empty/complement/has", k.Has(x) == (x <= lim))
	rt.Assert("empty/complement/len", k.Len() == int(lim)+1)
	// complement of the full set is empty and still a usable set
	f := set.NewSet()
	f.AddRange(0, lim)
	z := f.Complement(lim)
	rt.Assert("full/complement/has", !z.Has(x))
	rt.Assert("full/complement/len", z.Len() == 0)
	rt.Assert("full/complement/string", z.String() == "[]")
	rt.Assert("full/complement/equal-empty", z.Equal(e1))
	rt.Assert("full/complement/intersects", !z.Intersects(f))
	z.AddRange(x, x)
	y := probe("y", MaxCP)
	rt.Assert("full/complement/then-add/has", z.Has(y) == (y == x))
	rt.Assert("full/complement/then-add/len", z.Len() == 1)
	rt.Reach("empty/done")
}

// ---- one step from an arbitrary valid state (covers histories of any length) ----

// mkState builds a set whose list holds n nodes with arbitrary bounds, assuming only the
// representation invariant that AddRange maintains: 0 <= Begin_i <= End_i < Begin_{i+1} <= MaxCP,
// links consistent, sentinels in place. (Adjacent intervals, End_i + 1 == Begin_{i+1}, are
// allowed: AddRange does not merge them.)
func mkState(prefix string, n int, hi rune) (*set.Set, []iv) {
	s := set.NewSet()
	var ivs []iv
	prev := &s.Head
	last := rune(-1)
	for i := 0; i < n; i++ {
		b := rt.Rune(fmt.Sprintf("%sB%d", prefix, i))
		e := rt.Rune(fmt.Sprintf("%sE%d", prefix, i))
		rt.Assume(rt.And(last < b, b <= e, e <= hi))
		last = e
		nd := &set.Node{Begin: b, End: e, Backward: prev}
		prev.Forward = nd
		prev = nd
		ivs = append(ivs, iv{b, e})
	}
	if n > 0 {
		prev.Forward = &s.Tail
		s.Tail.Backward = prev
	}
	return s, ivs
}

// wellFormed checks the representation invariant by walking the list both ways.
func wellFormed(s *set.Set, hi rune) bool {
	ok := true
	if s.Head.Forward == nil {
		return s.Tail.Backward == nil
	}
	count := 0
	last := rune(-1)
	nd := s.Head.Forward
	prev := &s.Head
	for nd != nil && nd.Forward != nil {
		ok = rt.And(ok, last < nd.Begin, nd.Begin <= nd.End, nd.End <= hi, nd.Backward == prev)
		last = nd.End
		prev = nd
		nd = nd.Forward
		count++
		if count > 8 {
			return false
		}
	}
	return rt.And(ok, nd == &s.Tail, s.Tail.Backward == prev, count > 0)
}

// Step: from any valid state with n intervals, one AddRange with arbitrary arguments keeps the
// invariant and yields exactly the union.
func Step(n int) {
	s, ivs := mkState("s", n, MaxCP)
	r := newRange("r", MaxCP)
	s.AddRange(r.b, r.e)
	rt.Assert("step/invariant", wellFormed(s, MaxCP))
	x := probe("x", MaxCP)
	got := s.Has(x)
	rt.ObserveBool("has", got)
	rt.Assert("step/has", got == rt.Or(in(ivs, x), in([]iv{r}, x)))
	rt.Reach("step/done")
}

// StepOps: every read-only operation on an arbitrary valid state (small universe for Len).
func StepOps(n int) {
	s, ivs := mkState("s", n, LU)
	rt.Assert("state/len", s.Len() == card(ivs, LU))
	c := s.Copy()
	rt.Assert("state/copy/invariant", wellFormed(c, LU) || n == 0)
	lim := probe("lim", LU) // elements of the state may lie on both sides of the limit
	k := s.Complement(lim)
	x := probe("x", LU)
	rt.Assert("state/complement/has", k.Has(x) == rt.And(x <= lim, rt.Not(in(ivs, x))))
	inside := 0
	for v := rune(0); v <= LU; v++ {
		inside += rt.IteInt(rt.And(v <= lim, rt.Not(in(ivs, v))), 1, 0)
	}
	rt.Assert("state/complement/len", k.Len() == inside)
	rt.Assert("state/equal-copy", s.Equal(c))
	rt.Reach("stepops/done")
}
