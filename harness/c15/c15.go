// Package c15 holds the C15/C09 harnesses: the real (*tree.Tree).Compile analyses (link,
// countRules, checkRecursion, the emission loop's diagnostics, Strict) on skeleton grammars
// whose operator labels are symbolic, against an independent analysis of the same tree.
package c15

import (
	"bytes"
	"strings"

	"github.com/pointlander/peg/tree"
	"vhlib/rt"
)

// mirror of the grammar as the harness built it
type mnode struct {
	kind int // 0 terminal leaf, 1 name leaf, 2 unary, 3 list
	lab  tree.Type
	name string
	kids []*mnode
}

var ruleNames = []string{"Ra", "Rb", "Rc"}

func pick(name string, opts ...tree.Type) tree.Type {
	v := tree.Type(rt.Uint8(name))
	ok := false
	for _, o := range opts {
		ok = rt.Or(ok, v == o)
	}
	rt.Assume(ok)
	return v
}

type builder struct {
	t         *tree.Tree
	seq       int
	n         int  // number of defined rules
	fewLabels bool // terminal leaves range over {character, empty, action} only
}

func (b *builder) fresh(prefix string) string {
	b.seq++
	return prefix + string(rune('0'+b.seq))
}

// leaf code: 0 = terminal with symbolic label; 1..n = reference to rule i-1; n+1, n+2 = two undefined names
func (b *builder) leaf(code int) *mnode {
	if code == 0 {
		// alternately an ASCII and a non-ASCII character (the emitter escapes them differently)
		if b.seq%2 == 0 {
			b.t.AddCharacter("\u00e9")
		} else {
			b.t.AddCharacter("a")
		}
		var lab tree.Type
		if b.fewLabels {
			lab = pick(b.fresh("leaf"), tree.TypeCharacter, tree.TypeNil, tree.TypeAction)
		} else {
			lab = pick(b.fresh("leaf"), tree.TypeDot, tree.TypeCharacter, tree.TypeNil, tree.TypeAction, tree.TypePredicate)
		}
		b.t.Front().SetType(lab)
		return &mnode{kind: 0, lab: lab}
	}
	name := "Undef"
	if code <= b.n {
		name = ruleNames[code-1]
	} else if code == b.n+2 {
		name = "Undeg"
	}
	b.t.AddName(name)
	return &mnode{kind: 1, name: name}
}

func (b *builder) unary(k *mnode) *mnode {
	b.t.AddQuery()
	lab := pick(b.fresh("un"), tree.TypeQuery, tree.TypeStar, tree.TypePlus, tree.TypePeekFor, tree.TypePeekNot, tree.TypePush)
	b.t.Front().SetType(lab)
	return &mnode{kind: 2, lab: lab, kids: []*mnode{k}}
}

func (b *builder) list(ks ...*mnode) *mnode {
	// the builder was called with the operands in order; combine them
	for i := 1; i < len(ks); i++ {
		b.t.AddSequence()
	}
	lab := pick(b.fresh("li"), tree.TypeAlternate, tree.TypeSequence)
	b.t.Front().SetType(lab)
	return &mnode{kind: 3, lab: lab, kids: ks}
}

// body builds a rule body from its code: shape*100 + l1*10 + l2.
func (b *builder) body(code int) *mnode {
	shape, l1, l2 := code/100, (code/10)%10, code%10
	switch shape {
	case 0:
		return b.leaf(l1)
	case 1:
		return b.unary(b.leaf(l1))
	case 2:
		x := b.leaf(l1)
		y := b.leaf(l2)
		return b.list(x, y)
	case 3:
		x := b.leaf(l1)
		y := b.leaf(l2)
		return b.unary(b.list(x, y))
	case 4:
		x := b.unary(b.leaf(l1))
		y := b.leaf(l2)
		return b.list(x, y)
	case 5:
		x := b.leaf(l1)
		y := b.unary(b.leaf(l2))
		return b.list(x, y)
	case 6:
		return b.unary(b.unary(b.leaf(l1)))
	case 7: // (l1 / T) l2 — a choice as the prefix of a sequence (list labels fixed, T symbolic)
		x := b.leaf(l1)
		t := b.leaf(0)
		b.t.AddAlternate()
		inner := &mnode{kind: 3, lab: tree.TypeAlternate, kids: []*mnode{x, t}}
		y := b.leaf(l2)
		b.t.AddSequence()
		return &mnode{kind: 3, lab: tree.TypeSequence, kids: []*mnode{inner, y}}
	case 8: // l1 T / l2 — a sequence as the first alternative
		x := b.leaf(l1)
		t := b.leaf(0)
		b.t.AddSequence()
		inner := &mnode{kind: 3, lab: tree.TypeSequence, kids: []*mnode{x, t}}
		y := b.leaf(l2)
		b.t.AddAlternate()
		return &mnode{kind: 3, lab: tree.TypeAlternate, kids: []*mnode{inner, y}}
	case 9: // l1 (T / l2) — a choice after the first element
		x := b.leaf(l1)
		t := b.leaf(0)
		y := b.leaf(l2)
		b.t.AddAlternate()
		inner := &mnode{kind: 3, lab: tree.TypeAlternate, kids: []*mnode{t, y}}
		b.t.AddSequence()
		return &mnode{kind: 3, lab: tree.TypeSequence, kids: []*mnode{x, inner}}
	}
	panic("bad shape")
}

// ---- independent analysis over the mirror ----

type oracle struct {
	rules map[string]*mnode
	order []string
}

func (o *oracle) nullable(m *mnode, seen map[string]bool) bool {
	switch m.kind {
	case 0:
		return !(m.lab == tree.TypeDot || m.lab == tree.TypeCharacter)
	case 1:
		r, ok := o.rules[m.name]
		if !ok || seen[m.name] {
			return true // undefined names are stubs that match the empty string
		}
		seen[m.name] = true
		v := o.nullable(r, seen)
		seen[m.name] = false
		return v
	case 2:
		if m.lab == tree.TypePlus || m.lab == tree.TypePush {
			return o.nullable(m.kids[0], seen)
		}
		return true // ? * & !
	}
	if m.lab == tree.TypeSequence {
		for _, k := range m.kids {
			if !o.nullable(k, seen) {
				return false
			}
		}
		return true
	}
	for _, k := range m.kids {
		if o.nullable(k, seen) {
			return true
		}
	}
	return false
}

// leftNames: the names that occur in left position of m.
func (o *oracle) leftNames(m *mnode, out map[string]bool) {
	switch m.kind {
	case 1:
		out[m.name] = true
	case 2:
		o.leftNames(m.kids[0], out)
	case 3:
		if m.lab == tree.TypeSequence {
			for _, k := range m.kids {
				o.leftNames(k, out)
				if !o.nullable(k, map[string]bool{}) {
					return
				}
			}
			return
		}
		for _, k := range m.kids {
			o.leftNames(k, out)
		}
	}
}

func (o *oracle) allNames(m *mnode, out map[string]bool) {
	if m.kind == 1 {
		out[m.name] = true
	}
	for _, k := range m.kids {
		o.allNames(k, out)
	}
}

func (o *oracle) leftRecursive(name string) bool {
	seen := map[string]bool{}
	stack := []string{name}
	for len(stack) > 0 {
		x := stack[len(stack)-1]
		stack = stack[:len(stack)-1]
		r, ok := o.rules[x]
		if !ok {
			continue
		}
		ln := map[string]bool{}
		o.leftNames(r, ln)
		for _, y := range o.order {
			if !ln[y] {
				continue
			}
			if y == name {
				return true
			}
			if !seen[y] {
				seen[y] = true
				stack = append(stack, y)
			}
		}
	}
	return false
}

func (o *oracle) reachable() map[string]bool {
	reach := map[string]bool{o.order[0]: true}
	stack := []string{o.order[0]}
	for len(stack) > 0 {
		x := stack[len(stack)-1]
		stack = stack[:len(stack)-1]
		an := map[string]bool{}
		o.allNames(o.rules[x], an)
		for _, y := range o.order {
			if an[y] && !reach[y] {
				reach[y] = true
				stack = append(stack, y)
			}
		}
	}
	return reach
}

func hasLine(out, line string) bool {
	for _, l := range strings.Split(out, "\n") {
		if strings.TrimPrefix(l, "warning: ") == line {
			return true
		}
	}
	return false
}

// Diagnostics: n rules with bodies r0..r2 (codes), Compile with symbolic Strict.
func Diagnostics(n, r0, r1, r2, few int) {
	codes := []int{r0, r1, r2}
	t := tree.New(rt.Bool("inline"), false, false)
	t.AddPackage("p")
	t.AddPeg("T")
	t.AddState("")
	b := &builder{t: t, n: n, fewLabels: few != 0}
	o := &oracle{rules: map[string]*mnode{}}
	for i := 0; i < n; i++ {
		t.AddRule(ruleNames[i])
		m := b.body(codes[i])
		t.AddExpression()
		o.rules[ruleNames[i]] = m
		o.order = append(o.order, ruleNames[i])
	}
	strict := rt.Bool("strict")
	t.Strict = strict
	var out bytes.Buffer
	var err error
	stderr := rt.CaptureStderr(func() {
		err = t.Compile("out.go", []string{"peg"}, &out)
	})
	text := stderr
	if err != nil {
		text = err.Error()
	}
	rt.ObserveStr("diagnostics", text)

	// expected diagnostics
	undefinedUsed, undefinedUsed2 := false, false
	for i := 0; i < n; i++ {
		an := map[string]bool{}
		o.allNames(o.rules[ruleNames[i]], an)
		if an["Undef"] {
			undefinedUsed = true
		}
		if an["Undeg"] {
			undefinedUsed2 = true
		}
	}
	reach := o.reachable()
	anyWarn := undefinedUsed || undefinedUsed2
	anyLR, anyLRWarned := false, false
	rt.Assert("undefined/exact", hasLine(text, "rule 'Undef' used but not defined") == undefinedUsed)
	rt.Assert("undefined/exact", hasLine(text, "rule 'Undeg' used but not defined") == undefinedUsed2)
	for i := 0; i < n; i++ {
		name := ruleNames[i]
		rt.Assert("undefined/no-false-positive", !hasLine(text, "rule '"+name+"' used but not defined"))
		rt.Assert("unused/exact", hasLine(text, "rule '"+name+"' defined but not used") == !reach[name])
		lr := o.leftRecursive(name)
		warned := hasLine(text, "possible infinite left recursion in rule '"+name+"'")
		// a left-recursive rule is named; a rule is only named if the grammar has left recursion
		// (behind a left-recursive rule the walk may also re-enter innocent rules: tolerated)
		rt.Assert("left-recursion/reported", !lr || warned)
		if lr {
			anyLR = true
		}
		if warned {
			anyLRWarned = true
		}
		if !reach[name] || lr {
			anyWarn = true
		}
	}
	rt.Assert("left-recursion/no-false-alarm", !anyLRWarned || anyLR)
	if strict {
		rt.Assert("strict/warnings-fail", (err != nil) == anyWarn)
	} else if !anyWarn {
		rt.Assert("silent-when-clean", stderr == "")
	}
	if anyWarn {
		rt.Reach("warned")
	} else {
		rt.Reach("clean")
	}
}

// Duplicate: a rule defined twice is diagnosed and does not crash the generator.
func Duplicate(r0, r1 int) {
	t := tree.New(false, false, false)
	t.AddPackage("p")
	t.AddPeg("T")
	t.AddState("")
	b := &builder{t: t, n: 1}
	for i, code := range []int{r0, r1} {
		_ = i
		t.AddRule("Ra")
		b.body(code)
		t.AddExpression()
	}
	t.Strict = rt.Bool("strict")
	var out bytes.Buffer
	var err error
	stderr := rt.CaptureStderr(func() {
		err = t.Compile("out.go", []string{"peg"}, &out)
	})
	text := stderr
	if err != nil {
		text = err.Error()
	}
	rt.ObserveStr("diagnostics", text)
	rt.Assert("duplicate/diagnosed", strings.Contains(text, "'Ra'"))
	rt.Reach("done")
}

// ---- C09 (reduced claim): schedule- and map-order independence of one generation ----

func buildTree(n int, codes []int, few int) (*tree.Tree, *builder) {
	t := tree.New(rt.Bool("inline"), false, false)
	t.AddPackage("p")
	t.AddPeg("T")
	t.AddState("")
	b := &builder{t: t, n: n, fewLabels: few != 0}
	for i := 0; i < n; i++ {
		t.AddRule(ruleNames[i])
		b.body(codes[i])
		t.AddExpression()
	}
	return t, b
}

func compileOnce(t *tree.Tree) string {
	var out bytes.Buffer
	var err error
	stderr := rt.CaptureStderr(func() {
		err = t.Compile("out.go", []string{"peg"}, &out)
	})
	res := "stderr:" + stderr + "\nout:" + out.String()
	if err != nil {
		res += "\nerr:" + err.Error()
	}
	return res
}

// Deterministic: generating twice gives identical diagnostics and output. Symbolically the
// second generation runs the two analysis tasks in an order chosen by a symbolic boolean and
// visits every map in every possible order, each task under its own actor; natively the
// generation is simply repeated (real goroutines, real map order).
func Deterministic(n, r0, r1, r2, few int) {
	codes := []int{r0, r1, r2}
	strict := rt.Bool("strict")
	if !rt.Symbolic() {
		// native replay (race detector on): two generations of independent trees at the same time,
		// before anything else has run in this process (so that no cache is warm yet)
		for round := 0; round < 6; round++ {
			done := make(chan bool, 2)
			for k := 0; k < 2; k++ {
				go func() {
					tk, _ := buildTree(n, codes, few)
					tk.Strict = strict
					var out bytes.Buffer
					_ = tk.Compile("out.go", []string{"peg"}, &out)
					done <- true
				}()
			}
			<-done
			<-done
		}
	}
	t1, _ := buildTree(n, codes, few)
	t1.Strict = strict
	rt.Actor(1)
	ref := compileOnce(t1)
	rt.Actor(0)
	rt.ObserveStr("first-diagnostics", ref[:strings.Index(ref, "\nout:")])
	reps := 1
	if !rt.Symbolic() {
		reps = 12
	}
	for i := 0; i < reps; i++ {
		t2, _ := buildTree(n, codes, few)
		t2.Strict = strict
		rt.EnvSet("wg.defer", "1")
		rt.EnvSet("wg.actors", "1")
		rt.EnvSetBool("wg.swap", rt.Bool("swap"))
		rt.EnvSet("maporder", "sym")
		rt.Actor(2)
		got := compileOnce(t2)
		rt.Actor(0)
		rt.EnvSet("wg.defer", "")
		rt.EnvSet("maporder", "")
		rt.Assert("output-deterministic", got == ref)
	}
	rt.Assert("analysis-tasks-write-disjoint", rt.FootprintsDisjoint(100, 101))
	rt.Assert("independent-generations-write-disjoint", rt.FootprintsDisjoint(1, 2))
	rt.Reach("done")
}

// ---- A-COMPILE (assumption of the C18 harness): Compile returns nil only if its output reached
// the destination ----

type failingWriter struct {
	fail   bool
	failed bool
	wrote  bool
}

type writeError struct{}

func (writeError) Error() string { return "write: no space left on device" }

func (w *failingWriter) Write(p []byte) (int, error) {
	if w.fail {
		w.failed = true
		return 0, writeError{}
	}
	w.wrote = true
	return len(p), nil
}

// CompileWrites: a clean one-rule grammar is generated into a writer that may reject writes;
// a nil error from Compile means the parser was written and no write failed.
func CompileWrites(r0 int) {
	t, _ := buildTree(1, []int{r0, 0, 0}, 1)
	t.Strict = rt.Bool("strict")
	w := &failingWriter{fail: rt.Bool("writefails")}
	var err error
	_ = rt.CaptureStderr(func() {
		err = t.Compile("out.go", []string{"peg"}, w)
	})
	rt.ObserveBool("nil", err == nil)
	if err == nil {
		rt.Assert("compile-nil-implies-output-written", w.wrote && !w.failed)
		rt.Reach("written")
	} else {
		rt.Reach("error")
	}
}
