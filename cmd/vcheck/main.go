// vcheck: solver-based checks of pointlander/peg (see /verif/DESIGN.md).
package main

import (
	"flag"
	"fmt"
	"os"
	"os/signal"
	"path/filepath"
	"runtime"
	"runtime/debug"
	"runtime/pprof"
	"strconv"
	"syscall"
	"time"
)

type checkFn func(c *Ctx) error

var checks = map[string]checkFn{}

func main() {
	// every go command (also the ones go/packages starts) must be the go1.26.8 toolchain
	os.Setenv("PATH", goRoot+"/bin:"+os.Getenv("PATH"))
	os.Setenv("GOTOOLCHAIN", "local")
	os.Setenv("GOFLAGS", "-mod=mod")
	os.Setenv("GOPROXY", "off")
	os.Unsetenv("GOSUMDB")
	registerGramChecks()
	if len(os.Args) < 3 {
		fmt.Fprintln(os.Stderr, "usage: vcheck run <property> [--tier quick|thorough] [--keep] | vcheck replay <file>")
		os.Exit(2)
	}
	switch os.Args[1] {
	case "run":
		os.Exit(cmdRun(os.Args[2], os.Args[3:]))
	case "replay":
		os.Exit(cmdReplay(os.Args[2]))
	}
	fmt.Fprintln(os.Stderr, "unknown command", os.Args[1])
	os.Exit(2)
}

func cmdRun(prop string, args []string) int {
	fs := flag.NewFlagSet("run", flag.ExitOnError)
	tier := fs.String("tier", "quick", "quick or thorough")
	keep := fs.Bool("keep", false, "keep the scratch workspace")
	workers := fs.Int("workers", 0, "worker count (default: all cores)")
	verbose := fs.Bool("v", false, "verbose")
	budget := fs.Duration("budget", 0, "wall-clock budget for exploration (0 = tier default)")
	fs.Parse(args)
	if t := os.Getenv("VERIF_TIER"); t == "quick" || t == "thorough" {
		*tier = t
	}
	seed := int64(1)
	if s := os.Getenv("VERIF_SEED"); s != "" {
		if v, err := strconv.ParseInt(s, 10, 64); err == nil {
			seed = v
		}
	}
	fn, ok := checks[prop]
	if !ok {
		fmt.Fprintln(os.Stderr, "no check for property", prop)
		return 2
	}
	ws, err := NewWorkspace(*keep)
	if err != nil {
		fmt.Fprintln(os.Stderr, "workspace:", err)
		return 3
	}
	sig := make(chan os.Signal, 1)
	signal.Notify(sig, syscall.SIGINT, syscall.SIGTERM)
	go func() {
		<-sig
		ws.Close()
		os.Exit(3)
	}()
	c := &Ctx{Prop: prop, Tier: *tier, Seed: seed, WS: ws, Start: time.Now(), Workers: *workers, Verbose: *verbose,
		Bounds: map[string]any{}}
	if *budget == 0 {
		if c.Quick() {
			*budget = 12 * time.Minute
		} else {
			*budget = 60 * time.Minute
		}
	}
	c.Deadline = c.Start.Add(*budget)
	go watchdog(ws)
	known, err := loadKnown(prop)
	if err != nil {
		fmt.Fprintln(os.Stderr, err)
		ws.Close()
		return 3
	}
	c.Known = known
	if prop == "FAMILY" {
		fn(c)
		ws.Close()
		return 0
	}
	if !c.Quick() && transcriptDir == "" {
		// thorough tier: keep solver transcripts for the cross-solver check
		transcriptDir = filepath.Join(ws.Dir, "transcripts")
		os.MkdirAll(transcriptDir, 0o755)
		c.CrossDir = transcriptDir
	}
	if err := fn(c); err != nil {
		c.inconclusive("check could not run: %v", err)
	}
	if c.CrossDir != "" {
		cs := crossCheck(c.CrossDir, 4000)
		c.Cross = &cs
		if cs.Disagreements > 0 {
			c.inconclusive("cross-solver disagreement: %s", cs.Example)
		}
	}
	code := c.Finish()
	ws.Close()
	return code
}

// watchdog aborts the run (inconclusive, with goroutine stacks) if the process grows beyond
// 28 GiB: a check must never take the machine down.
var heapDumped bool

func watchdog(ws *Workspace) {
	debug.SetMemoryLimit(24 << 30)
	for {
		time.Sleep(2 * time.Second)
		var m runtime.MemStats
		runtime.ReadMemStats(&m)
		if m.Sys > 6<<30 && !heapDumped && os.Getenv("VERIF_HEAPPROF") != "" {
			heapDumped = true
			if f, err := os.Create(os.Getenv("VERIF_HEAPPROF")); err == nil {
				runtime.GC()
				pprof.Lookup("heap").WriteTo(f, 0)
				f.Close()
			}
		}
		if m.Sys > 28<<30 {
			fmt.Fprintf(os.Stderr, "watchdog: process uses %d MiB; aborting as inconclusive\n", m.Sys>>20)
			pprof.Lookup("goroutine").WriteTo(os.Stderr, 1)
			ws.Close()
			os.Exit(3)
		}
	}
}
