package main

import (
	"fmt"
	"os"
	"path/filepath"
	"regexp"
	"strings"

	"verif/symx"
)

// F-real: the shipped grammars, generated with the peg built from the working tree under the
// default options and under -inline -switch (how the project itself generates them), run from
// their first rule on every input of up to N runes: no panic, spans inside the input, the
// error message and the printers never crash (C13 thorough only).

const realAdapter = `package PKG

import "vhlib/rt"

// Run parses an arbitrary input of n runes and checks the crash-freedom part of C13.
func Run(n int) {
	in := rt.SymString("in", n)
	p := &NAME[uint32]{Buffer: in}
	_ = p.Init()
	err := p.Parse()
	rt.Assert("buffer-has-sentinel", len(p.buffer) == n+1)
	if err == nil {
		rt.ObserveBool("ok", true)
		for _, t := range p.Tokens() {
			rt.Assert("token-span", 0 <= int(t.begin) && t.begin <= t.end && int(t.end) <= n)
		}
		_ = p.SprintSyntaxTree()
		rt.Reach("accept")
	} else {
		rt.ObserveBool("ok", false)
		mt := err.(*parseError[uint32]).maxToken
		rt.Assert("error-token-span", 0 <= int(mt.begin) && mt.begin <= mt.end && int(mt.end) <= n)
		_ = err.Error()
		rt.Reach("reject")
	}
}
`

var realGrammars = []struct {
	file string
	n    int
}{
	{"grammars/calculator/calculator.peg", 4},
	{"grammars/calculatorast/calculator.peg", 4},
	{"grammars/fexl/fexl.peg", 3},
	{"grammars/longtest/long.peg", 4},
	{"grammars/c/c.peg", 2},
	{"grammars/java/java_1_7.peg", 2},
	{"peg.peg", 2},
}

var typeRe = regexp.MustCompile(`(?m)^type\s+(\w+)\s+Peg`)
var pkgRe = regexp.MustCompile(`(?m)^package\s+\w+`)

func runReal(c *Ctx) error {
	ws := c.WS
	if ws.PegBin == "" {
		if err := ws.BuildPeg(); err != nil {
			return err
		}
	}
	// the parsers import the repository's own packages in places (peg.peg): put them into the repo copy
	var patterns []string
	var jobs []*Job
	for gi, g := range realGrammars {
		text, err := os.ReadFile(filepath.Join(ws.Repo, g.file))
		if err != nil {
			c.Notes = append(c.Notes, "F-real: "+g.file+" not present")
			continue
		}
		m := typeRe.FindSubmatch(text)
		if m == nil {
			continue
		}
		for _, vn := range []string{"d", "is"} {
			pkg := fmt.Sprintf("fr%d%s", gi, vn)
			dir := filepath.Join(ws.Repo, "zzreal", pkg)
			os.MkdirAll(dir, 0o755)
			src := pkgRe.ReplaceAllString(string(text), "package "+pkg)
			os.WriteFile(filepath.Join(dir, "g.peg"), []byte(src), 0o644)
			args := append(append([]string{"-strict"}, variants[vn].Flags...), "-output", "g.peg.go", "g.peg")
			if out, err := run(dir, ws.PegBin, args...); err != nil {
				c.Findings = append(c.Findings, &Finding{Property: c.Prop, Tier: c.Tier, Seed: c.Seed, Label: "real:" + g.file, Entry: "generate", Kind: "build",
					AssertID: "shipped-grammar-generates-under-strict/" + vn, Msg: trunc(out, 400), Confirmed: true})
				continue
			}
			ad := strings.ReplaceAll(strings.Replace(realAdapter, "PKG", pkg, 1), "NAME", string(m[1]))
			os.WriteFile(filepath.Join(dir, "adapter.go"), []byte(ad), 0o644)
			if g.file != "peg.peg" {
				copySiblings(filepath.Join(ws.Repo, g.file), dir, pkg)
			}
			patterns = append(patterns, "./zzreal/"+pkg)
			for n := 0; n <= g.n; n++ {
				jobs = append(jobs, &Job{PkgPath: pegPkg + "/zzreal/" + pkg, Entry: "Run", Args: []int{n}, Label: "real:" + g.file + ":" + optName[vn], NoSamples: n != g.n})
			}
		}
	}
	l, err := LoadSSA(ws.Repo, patterns...)
	if err != nil {
		return err
	}
	for p, msg := range l.Bad {
		c.inconclusive("F-real package %s does not load: %s", p, trunc(msg, 300))
	}
	c.LoadTime += l.LoadTime
	cfg := symx.DefaultConfig()
	cfg.ValidateEvery = 200
	cfg.MaxPaths = 300000
	runners := map[string]*NativeRunner{}
	for _, j := range jobs {
		if runners[j.PkgPath] == nil {
			runners[j.PkgPath] = &NativeRunner{Dir: ws.Repo, PkgPath: j.PkgPath, Entries: []string{"Run"}}
		}
	}
	res := RunJobs(l, jobs, c.Workers, cfg, c.Deadline)
	c.Bounds["shipped_grammars"] = "calculator, calculatorast, fexl, longtest (N<=3..4), c, java, peg.peg (N<=2); default options and -inline -switch; from the first rule"
	c.Process(res, func(j *Job) *NativeRunner { return runners[j.PkgPath] })
	return nil
}

// copySiblings copies the hand-written Go files next to a shipped grammar (types its actions
// use) into dir with the package clause renamed.
func copySiblings(grammarFile, dir, pkg string) {
	src := filepath.Dir(grammarFile)
	ents, err := os.ReadDir(src)
	if err != nil {
		return
	}
	for _, e := range ents {
		n := e.Name()
		if e.IsDir() || !strings.HasSuffix(n, ".go") || strings.HasSuffix(n, "_test.go") || strings.HasSuffix(n, ".peg.go") {
			continue
		}
		data, err := os.ReadFile(filepath.Join(src, n))
		if err != nil {
			continue
		}
		os.WriteFile(filepath.Join(dir, "zz_"+n), []byte(pkgRe.ReplaceAllString(string(data), "package "+pkg)), 0o644)
	}
}
