package main

import (
	"math/rand"
	"path/filepath"

	"verif/symx"
)

func init() {
	checks["C09"] = checkC09
	replayers["C09"] = func(ws *Workspace, f *Finding) (*ReplayOutcome, error) {
		if err := ws.CopyHarness("c15", filepath.Join(ws.HX, "c15")); err != nil {
			return nil, err
		}
		r := &NativeRunner{Dir: ws.HX, PkgPath: "hx/c15", Entries: c15Entries, Race: true}
		outs, err := r.Run([]ReplayCase{{Entry: f.Entry, Args: f.Args, Vars: f.Vars}}, 120*1e9)
		if err != nil || len(outs) == 0 {
			return nil, err
		}
		return &outs[0], nil
	}
	checks["C15"] = checkC15
	replayers["C15"] = func(ws *Workspace, f *Finding) (*ReplayOutcome, error) {
		if err := ws.CopyHarness("c15", filepath.Join(ws.HX, "c15")); err != nil {
			return nil, err
		}
		return replayInPkg(ws.HX, "hx/c15", c15Entries, f)
	}
}

// c15Bodies enumerates rule-body codes (shape*100 + l1*10 + l2) for a grammar of n rules.
func c15Bodies(n int) []int {
	var out []int
	leaves := n + 3 // 0 terminal, 1..n rules, n+1 and n+2 undefined names
	for _, shape := range []int{0, 1, 6} {
		for l1 := 0; l1 < leaves; l1++ {
			out = append(out, shape*100+l1*10)
		}
	}
	for _, shape := range []int{2, 3, 4, 5, 7, 8, 9} {
		for l1 := 0; l1 < leaves; l1++ {
			for l2 := 0; l2 < leaves; l2++ {
				out = append(out, shape*100+l1*10+l2)
			}
		}
	}
	return out
}

// c15Cost estimates the number of label assignments of a body (terminal leaves have nl labels).
func c15Cost(code, nl int) int {
	shape, l1, l2 := code/100, (code/10)%10, code%10
	lf := func(l int) int {
		if l == 0 {
			return nl
		}
		return 1
	}
	switch shape {
	case 0:
		return lf(l1)
	case 1:
		return 6 * lf(l1)
	case 2:
		return 2 * lf(l1) * lf(l2)
	case 3, 4, 5:
		return 12 * lf(l1) * lf(l2)
	case 6:
		return 36 * lf(l1)
	case 7, 8, 9:
		return nl * lf(l1) * lf(l2)
	}
	return 1
}

func checkC15(c *Ctx) error {
	ws := c.WS
	if err := ws.CopyHarness("c15", filepath.Join(ws.HX, "c15")); err != nil {
		return err
	}
	l, err := LoadSSA(ws.HX, "./c15")
	if err != nil {
		return err
	}
	if err := l.FirstBad(); err != nil {
		return err
	}
	c.LoadTime = l.LoadTime
	pkg := "hx/c15"
	rng := rand.New(rand.NewSource(c.Seed))
	var jobs []*Job
	add := func(entry string, args ...int) {
		jobs = append(jobs, &Job{PkgPath: pkg, Entry: entry, Args: args, Label: "skeleton"})
	}
	// one rule: every body; two rules: every body for the first x a sample for the second; three: sample
	n1 := c15Bodies(1)
	for _, b := range n1 {
		add("Diagnostics", 1, b, 0, 0, 0)
	}
	n2 := c15Bodies(2)
	per2, n3count, few := 1, 30, 1
	if !c.Quick() {
		per2, n3count, few = 5, 250, 0
	}
	budget, nl := 1500, 3
	if !c.Quick() {
		budget, nl = 6000, 5
	}
	for _, b0 := range n2 {
		for k, tries := 0, 0; k < per2 && tries < 200; tries++ {
			b1 := n2[rng.Intn(len(n2))]
			if c15Cost(b0, nl)*c15Cost(b1, nl) > budget {
				continue
			}
			add("Diagnostics", 2, b0, b1, 0, few)
			k++
		}
	}
	// curated: a recursive reference behind a second rule in prefix position — the second rule's
	// body ranges over every shape built from terminals, so every way of being (or not being)
	// nullable is tried as the prefix: Ra <- Rb Ra, Ra <- op(Rb) Ra, Ra <- Rb op(Ra)
	for _, r0 := range []int{221, 421, 521} {
		for _, r1 := range []int{0, 100, 600, 200, 300, 400, 500} {
			add("Diagnostics", 2, r0, r1, 0, 1)
		}
	}
	n3 := c15Bodies(3)
	for k, tries := 0, 0; k < n3count && tries < 100000; tries++ {
		x, y, z := n3[rng.Intn(len(n3))], n3[rng.Intn(len(n3))], n3[rng.Intn(len(n3))]
		if c15Cost(x, 3)*c15Cost(y, 3)*c15Cost(z, 3) > budget {
			continue
		}
		add("Diagnostics", 3, x, y, z, 1)
		k++
	}
	dupBodies := []int{0, 10, 20, 100, 110, 120, 200, 210, 220, 201, 202, 600, 610, 620}
	for _, a := range dupBodies {
		for _, b := range dupBodies {
			add("Duplicate", a, b)
		}
	}
	cfg := symx.DefaultConfig()
	cfg.ValidateEvery = 40
	cfg.ExtraStubs = symx.CompileStubs()
	cfg.MaxPaths = 200000
	runner := &NativeRunner{Dir: ws.HX, PkgPath: pkg, Entries: c15Entries}
	res := RunJobs(l, jobs, c.Workers, cfg, c.Deadline)
	c.Programs = len(jobs)
	c.Bounds["skeletons"] = map[string]any{"rules": "1..3", "body_shapes": "leaf, unary(leaf), unary(unary(leaf)), list(leaf,leaf), unary(list), list(unary,leaf), list(leaf,unary), (leaf / T) leaf, leaf T / leaf, leaf (T / leaf)",
		"leaf_wiring": "terminal | reference to each defined rule | reference to an undefined name", "one_rule": "all bodies", "two_rules": "all first bodies x seeded sample of second; plus Ra <- Rb Ra / op(Rb) Ra / Rb op(Ra) with every terminal-only body for Rb", "three_rules": "seeded sample"}
	c.Bounds["symbolic"] = "operator labels: unary in {? * + & ! <>}, list in {/ sequence}, terminal in {dot, character, empty, action, predicate}; Strict"
	c.Bounds["outside"] = "larger grammars; deeper nesting; -switch/-inline (analysis is independent of them); wording beyond the three quoted phrases"
	c.Assumptions = append(c.Assumptions, "A-SSA", "A-SMT",
		"text/template, go/parser, go/printer are stubs that succeed (emitted text is not the subject); sync.WaitGroup.Go runs the task immediately (sequential schedule; see C09)",
		"symbolic labels are concretised by the solver where the code indexes by them (link's per-type counters): exhaustive over the label assignments of each skeleton")
	c.Process(res, func(*Job) *NativeRunner { return runner })
	return nil
}

var c15Entries = []string{"Diagnostics", "Duplicate", "Deterministic", "CompileWrites"}

// checkC09 is the reduced claim of C09 (DESIGN.md 5): one generation is independent of the order
// of its two analysis tasks and of map iteration order, the tasks' write footprints are
// disjoint, and two generations of independent trees share no written state.
func checkC09(c *Ctx) error {
	ws := c.WS
	if err := ws.CopyHarness("c15", filepath.Join(ws.HX, "c15")); err != nil {
		return err
	}
	l, err := LoadSSA(ws.HX, "./c15")
	if err != nil {
		return err
	}
	if err := l.FirstBad(); err != nil {
		return err
	}
	c.LoadTime = l.LoadTime
	pkg := "hx/c15"
	rng := rand.New(rand.NewSource(c.Seed))
	var jobs []*Job
	add := func(args ...int) {
		jobs = append(jobs, &Job{PkgPath: pkg, Entry: "Deterministic", Args: args, Label: "skeleton", Need: []string{"done"}})
	}
	budget, n2count, n3count := 300, 60, 40
	if !c.Quick() {
		budget, n2count, n3count = 2000, 350, 250 // both task orders are explored: twice the paths of one order
	}
	for _, b := range c15Bodies(1) {
		add(1, b, 0, 0, 1)
	}
	n2 := c15Bodies(2)
	for k, tries := 0, 0; k < n2count && tries < 100000; tries++ {
		x, y := n2[rng.Intn(len(n2))], n2[rng.Intn(len(n2))]
		if c15Cost(x, 3)*c15Cost(y, 3) > budget {
			continue
		}
		add(2, x, y, 0, 1)
		k++
	}
	n3 := c15Bodies(3)
	for k, tries := 0, 0; k < n3count && tries < 100000; tries++ {
		x, y, z := n3[rng.Intn(len(n3))], n3[rng.Intn(len(n3))], n3[rng.Intn(len(n3))]
		if c15Cost(x, 3)*c15Cost(y, 3)*c15Cost(z, 3) > budget {
			continue
		}
		add(3, x, y, z, 1)
		k++
	}
	// curated: grammars in which both analysis tasks have something to report (a left-recursive
	// rule next to an undefined and an unused one), so that their order can show
	for _, r1 := range []int{0, 30, 230, 203} {
		add(2, 212, r1, 0, 1)
		add(2, 221, r1, 0, 1)
		add(3, 211, 30, 233, 1)
	}
	cfg := symx.DefaultConfig()
	cfg.ValidateEvery = 400
	cfg.ExtraStubs = symx.CompileStubs()
	cfg.MaxPaths = 200000
	runner := &NativeRunner{Dir: ws.HX, PkgPath: pkg, Entries: c15Entries, Race: true}
	res := RunJobs(l, jobs, c.Workers, cfg, c.Deadline)
	c.Programs = len(jobs)
	c.Bounds["skeletons"] = "as C15 (1..3 rules, symbolic operator labels), seeded sample"
	c.Bounds["schedules"] = "the two analysis tasks of Compile in both orders (symbolic boolean); every permutation of every map range with 2..4 keys"
	c.Bounds["reduced_claim"] = "footprint disjointness makes every finer interleaving equivalent to one of the two sequential orders; the real scheduler, GOMAXPROCS and cross-process identity are outside (native replay repeats the generation 12 times under the race detector)"
	c.Assumptions = append(c.Assumptions, "A-SSA", "A-SMT", "text/template, go/parser, go/printer stubbed (the emitted text is compared natively only)",
		"a data race or schedule dependence needs a memory cell written by one analysis task and accessed by the other: checked on the executor's heap cells")
	c.Process(res, func(*Job) *NativeRunner { return runner })
	return nil
}
