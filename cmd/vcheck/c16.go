package main

import (
	"path/filepath"

	"verif/symx"
)

func init() { checks["C16"] = checkC16 }

func checkC16(c *Ctx) error {
	ws := c.WS
	if err := ws.CopyHarness("c16", filepath.Join(ws.HX, "c16")); err != nil {
		return err
	}
	l, err := LoadSSA(ws.HX, "./c16")
	if err != nil {
		return err
	}
	if err := l.FirstBad(); err != nil {
		return err
	}
	c.LoadTime = l.LoadTime
	pkg := "hx/c16"
	k1, k2, kpair := 2, 3, 1 // quick: histories of <= k insertions
	if !c.Quick() {
		k1, k2, kpair = 3, 4, 2
	}
	_ = k2
	var jobs []*Job
	add := func(entry string, need string, args ...int) {
		jobs = append(jobs, &Job{PkgPath: pkg, Entry: entry, Args: args, Label: "set", Need: []string{need}})
	}
	for k := 0; k <= k1; k++ {
		add("Has", "has/done", k)
		add("AddOne", "add/done", k)
		add("Copy", "copy/done", k)
		add("Complement", "complement/done", k)
		add("Len", "len/done", k)
		add("ComplementLen", "complementlen/done", k)
		add("String", "string/done", k)
	}
	if !c.Quick() {
		add("Has", "has/done", 4)
		add("Len", "len/done", 4)
	}
	for a := 0; a <= kpair+1; a++ {
		for b := 0; b <= kpair+1; b++ {
			if a+b > kpair+2 {
				continue
			}
			add("Union", "union/done", a, b)
			add("Intersects", "intersects/done", a, b)
			add("Equal", "equal/done", a, b)
			if a+b <= kpair+1 {
				add("UnionAlias", "unionalias/done", a, b)
				add("UnionLen", "unionlen/done", a, b)
			}
		}
	}
	add("Empty", "empty/done")
	nstate := 3
	if !c.Quick() {
		nstate = 4
	}
	for n := 0; n <= nstate; n++ {
		add("Step", "step/done", n)
		add("StepOps", "stepops/done", n)
	}
	c.Bounds["universe"] = "membership/union/intersects/complement/equal: all code points and the end symbol, 0..0x110000; Len: elements 0..7; String: elements 0..5"
	c.Bounds["history_length"] = map[string]int{"single_set_ops_max_insertions": k1, "pair_ops_max_insertions_total": kpair + 2}
	c.Bounds["inductive_step"] = "one AddRange (and every read-only operation) from an ARBITRARY valid list of <= 3 (quick) / 4 (thorough) intervals: covers histories of any length whose sets have that many intervals"
	c.Bounds["outside"] = "longer histories; cardinality of sets with elements above 7; arguments with begin > end, negative or above 0x110000 (precondition)"
	c.Assumptions = append(c.Assumptions, "A-SSA: go/ssa (x/tools v0.50.0) translates set/set.go faithfully", "A-Z3: z3 4.8.12 answers are correct",
		"precondition: AddRange(begin,end) with 0 <= begin <= end; Complement(limit) with every element <= limit")
	cfg := symx.DefaultConfig()
	cfg.ValidateEvery = 7
	entries := c16Entries
	runner := &NativeRunner{Dir: ws.HX, PkgPath: pkg, Entries: entries}
	res := RunJobs(l, jobs, c.Workers, cfg, c.Deadline)
	c.Programs = 1
	c.Process(res, func(*Job) *NativeRunner { return runner })
	return nil
}

func cmdReplay(file string) int { return replayFile(file) }

var c16Entries = []string{"Has", "AddOne", "Copy", "Complement", "Len", "ComplementLen", "UnionLen", "String", "Union", "UnionAlias", "Intersects", "Equal", "Empty", "Step", "StepOps"}

func init() {
	replayers["C16"] = func(ws *Workspace, f *Finding) (*ReplayOutcome, error) {
		if err := ws.CopyHarness("c16", filepath.Join(ws.HX, "c16")); err != nil {
			return nil, err
		}
		return replayInPkg(ws.HX, "hx/c16", c16Entries, f)
	}
}
