package main

import (
	"bufio"
	"encoding/json"
	"fmt"
	"os"
	"path/filepath"
	"regexp"
	"sort"
	"strings"
	"sync"
	"time"

	"verif/symx"
)

// Ctx is the state of one check run.
type Ctx struct {
	Prop     string
	Tier     string
	Seed     int64
	WS       *Workspace
	Start    time.Time
	Deadline time.Time
	Workers  int
	Verbose  bool

	Known []*KnownFinding

	// accumulated
	Results            []*JobResult
	Findings           []*Finding
	Inconclusive       []string
	Validated          int
	ValidationMismatch []string
	Samples            []any
	Bounds             map[string]any
	Assumptions        []string
	Notes              []string
	Programs           int
	knownSeen          map[string]int
	CrossDir           string
	Cross              *CrossStats
	LoadTime           time.Duration
	NativeTime         time.Duration
	ExploreTime        time.Duration
}

func (c *Ctx) Quick() bool { return c.Tier != "thorough" }

func (c *Ctx) inconclusive(format string, a ...any) {
	msg := fmt.Sprintf(format, a...)
	for _, m := range c.Inconclusive {
		if m == msg {
			return
		}
	}
	c.Inconclusive = append(c.Inconclusive, msg)
}

// ---- known findings ----

type KnownFinding struct {
	Property string
	ID       string
	Match    *regexp.Regexp // against "label|entry|assert_id"
	What     string
	Fixed    bool
}

var kvRe = regexp.MustCompile(`(\w+)=("[^"]*"|\S+)`)

func loadKnown(prop string) ([]*KnownFinding, error) {
	f, err := os.Open(filepath.Join(verifRoot, "known-findings.txt"))
	if err != nil {
		if os.IsNotExist(err) {
			return nil, nil
		}
		return nil, err
	}
	defer f.Close()
	var out []*KnownFinding
	sc := bufio.NewScanner(f)
	for sc.Scan() {
		line := strings.TrimSpace(sc.Text())
		if line == "" || strings.HasPrefix(line, "#") {
			continue
		}
		kf := &KnownFinding{}
		switch {
		case strings.HasPrefix(line, "finding:"):
		case strings.HasPrefix(line, "fixed:"):
			kf.Fixed = true
		default:
			continue
		}
		for _, m := range kvRe.FindAllStringSubmatch(line, -1) {
			v := strings.Trim(m[2], `"`)
			switch m[1] {
			case "property":
				kf.Property = v
			case "id":
				kf.ID = v
			case "match":
				re, err := regexp.Compile(v)
				if err != nil {
					return nil, fmt.Errorf("known-findings: bad match %q: %v", v, err)
				}
				kf.Match = re
			case "what":
				kf.What = v
			}
		}
		if kf.Fixed || kf.Property != prop || kf.Match == nil {
			continue // fixed entries suppress nothing
		}
		out = append(out, kf)
	}
	return out, sc.Err()
}

func (c *Ctx) matchKnown(f *Finding) *KnownFinding {
	key := f.Label + "|" + f.Entry + "|" + f.AssertID
	for _, k := range c.Known {
		if k.Match.MatchString(key) {
			return k
		}
	}
	return nil
}

// ---- generic post-processing ----

// Process folds job results into the context: witnesses, unsupported, violations (replayed
// natively through runner), sampled paths (validated natively).
func (c *Ctx) Process(results []*JobResult, runnerOf func(*Job) *NativeRunner) {
	type pending struct {
		jr   *JobResult
		viol *symx.Violation
		samp *symx.PathSample
	}
	byRunner := map[*NativeRunner][]pending{}
	for _, jr := range results {
		c.Results = append(c.Results, jr)
		j := jr.Job
		if jr.Err != "" {
			c.inconclusive("%s %s%v: %s", j.Label, j.Entry, j.Args, trunc(jr.Err, 1500))
			continue
		}
		r := jr.Res
		if c.Verbose {
			fmt.Printf("  job %-28s %-22s paths=%-7d dec=%-7d q=%-7d unk=%d viol=%d wall=%.1fs solver=%.1fs ends=%v\n", j.Label, fmt.Sprintf("%s%v", j.Entry, j.Args),
				r.Paths, r.Decisions, r.Queries.Sat+r.Queries.Unsat+r.Queries.Unknown, r.Queries.Unknown, len(r.Violations), r.Wall.Seconds(), r.SolverTime.Seconds(), r.Ends)
		}
		for _, u := range r.Unsupported {
			c.inconclusive("%s %s%v: unsupported: %s", j.Label, j.Entry, j.Args, u)
		}
		if r.Incomplete != "" {
			c.inconclusive("%s %s%v: exploration incomplete: %s (after %d paths)", j.Label, j.Entry, j.Args, r.Incomplete, r.Paths)
		}
		if r.Queries.Unknown > 0 {
			c.inconclusive("%s %s%v: %d solver answers unknown", j.Label, j.Entry, j.Args, r.Queries.Unknown)
		}
		if r.Ends["ok"] == 0 && len(r.Violations) == 0 && r.Incomplete == "" {
			c.inconclusive("%s %s%v: vacuous: no path ran to completion (ends=%v)", j.Label, j.Entry, j.Args, r.Ends)
		}
		for _, need := range j.Need {
			if r.Reached[need] == 0 && len(r.Violations) == 0 {
				c.inconclusive("%s %s%v: vacuous: witness %q not reached on any path", j.Label, j.Entry, j.Args, need)
			}
		}
		var run *NativeRunner
		if runnerOf != nil {
			run = runnerOf(j)
		}
		for i := range r.Violations {
			byRunner[run] = append(byRunner[run], pending{jr: jr, viol: &r.Violations[i]})
		}
		for i := range r.Samples {
			byRunner[run] = append(byRunner[run], pending{jr: jr, samp: &r.Samples[i]})
		}
	}
	type runOut struct {
		outs []ReplayOutcome
		err  error
	}
	results2 := map[*NativeRunner]*runOut{}
	var mu sync.Mutex
	var wg sync.WaitGroup
	sem := make(chan struct{}, 16)
	t0 := time.Now()
	for run, ps := range byRunner {
		if run == nil {
			continue
		}
		var cases []ReplayCase
		for _, p := range ps {
			rc := ReplayCase{Entry: p.jr.Job.Entry, Args: p.jr.Job.Args}
			if p.viol != nil {
				rc.Vars = p.viol.Model
			} else {
				rc.Vars = p.samp.Model
			}
			cases = append(cases, rc)
		}
		wg.Add(1)
		sem <- struct{}{}
		go func(run *NativeRunner, cases []ReplayCase) {
			defer wg.Done()
			defer func() { <-sem }()
			outs, err := c.runNativeChunked(run, cases)
			mu.Lock()
			results2[run] = &runOut{outs, err}
			mu.Unlock()
		}(run, cases)
	}
	wg.Wait()
	c.NativeTime += time.Since(t0)
	for run, ps := range byRunner {
		var outs []ReplayOutcome
		if ro := results2[run]; ro != nil {
			outs = ro.outs
			if ro.err != nil {
				c.inconclusive("native replay unavailable for %s: %v", run.PkgPath, ro.err)
			}
		}
		for i, p := range ps {
			var o *ReplayOutcome
			if i < len(outs) {
				o = &outs[i]
			}
			if p.viol != nil {
				c.addViolation(p.jr, p.viol, o)
			} else if o != nil {
				c.validateSample(p.jr, p.samp, o)
			}
		}
	}
}

// runNativeChunked runs cases one process per chunk so that a crash or hang in one case only
// loses that chunk's tail (which is then retried case by case).
func (c *Ctx) runNativeChunked(run *NativeRunner, cases []ReplayCase) ([]ReplayOutcome, error) {
	var all []ReplayOutcome
	i := 0
	for i < len(cases) {
		// every case has its own 45 s allowance inside the replay process (rt.CaseTimeout); the
		// limit here only guards against a process that does not come back at all
		outs, err := run.Run(cases[i:], time.Duration(60+50*min(len(cases)-i, 40))*time.Second)
		if err != nil {
			return all, err
		}
		if len(outs) == 0 {
			return all, fmt.Errorf("native replay produced no outcome")
		}
		all = append(all, outs...)
		i += len(outs)
	}
	return all, nil
}

func (c *Ctx) addViolation(jr *JobResult, v *symx.Violation, o *ReplayOutcome) {
	j := jr.Job
	f := &Finding{Property: c.Prop, Tier: c.Tier, Seed: c.Seed, Label: j.Label, Entry: j.Entry, Args: j.Args, PkgPath: j.PkgPath, Kind: v.Kind,
		AssertID: v.ID, Msg: v.Msg, Vars: v.Model, Strs: v.Strs, Meta: j.Meta, Native: o, Obs: v.Obs}
	if o != nil {
		switch v.Kind {
		case "assert":
			for _, id := range o.Failed {
				if id == v.ID || id == "race-detector" {
					f.Confirmed = true
				}
			}
		case "panic":
			f.Confirmed = o.Panic != ""
		case "budget":
			f.Confirmed = strings.Contains(o.Panic, "timed out") || strings.Contains(o.Panic, "process died")
		}
	}
	// one finding per (label, entry, assert id): keep the first confirmed one
	for _, g := range c.Findings {
		if g.Label == f.Label && g.Entry == f.Entry && g.AssertID == f.AssertID && g.Confirmed == f.Confirmed {
			return
		}
	}
	c.Findings = append(c.Findings, f)
}

func (c *Ctx) validateSample(jr *JobResult, s *symx.PathSample, o *ReplayOutcome) {
	j := jr.Job
	bad := ""
	switch {
	case o.Panic != "":
		bad = "native run panicked: " + o.Panic
	case o.AssumeFailed:
		bad = "native run failed an assumption the engine satisfied"
	case len(o.Failed) > 0:
		bad = "native run failed assertion " + strings.Join(o.Failed, ",") + " that the engine discharged"
	case strings.Join(o.Reached, ",") != strings.Join(s.Reached, ","):
		bad = fmt.Sprintf("witnesses differ: engine %v native %v", s.Reached, o.Reached)
	case len(o.Obs) != len(s.Obs):
		bad = fmt.Sprintf("observation count differs: engine %d native %d", len(s.Obs), len(o.Obs))
	default:
		for i := range s.Obs {
			ev := s.Obs[i].Val
			if strings.HasPrefix(ev, "bv:") {
				ev = ev[3:]
			}
			nv := o.Obs[i].Val
			if s.Obs[i].ID != o.Obs[i].ID || (ev != nv && !sameInt(ev, nv)) {
				bad = fmt.Sprintf("observation %d differs: engine %s=%q native %s=%q", i, s.Obs[i].ID, ev, o.Obs[i].ID, nv)
				break
			}
		}
	}
	if bad != "" {
		msg := fmt.Sprintf("%s %s%v vars=%v: %s", j.Label, j.Entry, j.Args, s.Model, bad)
		c.ValidationMismatch = append(c.ValidationMismatch, msg)
		c.inconclusive("encoder validation mismatch: %s", msg)
		return
	}
	c.Validated++
}

// sameInt compares an unsigned bit-vector rendering with a signed native rendering.
func sameInt(a, b string) bool {
	var x, y int64
	var ux uint64
	if _, err := fmt.Sscan(b, &y); err != nil {
		return false
	}
	if _, err := fmt.Sscan(a, &ux); err != nil {
		if _, err := fmt.Sscan(a, &x); err != nil {
			return false
		}
		return x == y
	}
	return int64(ux) == y || uint32(ux) == uint32(y) && ux <= 0xFFFFFFFF && y < 0
}

// ---- finishing: findings, evidence, exit code ----

type Evidence struct {
	PropertyID  string         `json:"property_id"`
	Tier        string         `json:"tier"`
	Seed        int64          `json:"seed"`
	Level       string         `json:"level"`
	Coverage    map[string]any `json:"coverage"`
	Assumptions []string       `json:"assumptions"`
	WallS       float64        `json:"wall_s"`
	Violations  int            `json:"violations"`
}

func (c *Ctx) Finish() int {
	// aggregate
	var paths, decisions, asserts, pruned, nontrivial int
	var steps int64
	var q symx.QueryStats
	var solverT time.Duration
	funcs := map[string]int{}
	stubs := map[string]int{}
	witnesses := map[string]int{}
	assertIDs := map[string]int{}
	ends := map[string]int{}
	maxSteps := 0
	for _, jr := range c.Results {
		r := jr.Res
		if r == nil {
			continue
		}
		paths += r.Paths
		decisions += r.Decisions
		asserts += r.Asserts
		pruned += r.AssumePruned
		nontrivial += r.Nontrivial
		steps += r.Steps
		solverT += r.SolverTime
		q.Branch += r.Queries.Branch
		q.Assert += r.Queries.Assert
		q.Assume += r.Queries.Assume
		q.Concretize += r.Queries.Concretize
		q.Witness += r.Queries.Witness
		q.Sat += r.Queries.Sat
		q.Unsat += r.Queries.Unsat
		q.Unknown += r.Queries.Unknown
		for k, v := range r.Funcs {
			funcs[k] = v
		}
		for k, v := range r.Stubs {
			stubs[k] += v
		}
		for k, v := range r.Reached {
			witnesses[k] += v
		}
		for k, v := range r.AssertIDs {
			assertIDs[k] += v
		}
		for k, v := range r.Ends {
			ends[k] += v
		}
		if r.MaxPathSteps > maxSteps {
			maxSteps = r.MaxPathSteps
		}
	}
	// findings
	exit := 0
	nviol := 0
	knownSeen := map[string]*KnownFinding{}
	os.MkdirAll(filepath.Join(verifRoot, "replays"), 0o755)
	for _, f := range c.Findings {
		if !f.Confirmed {
			c.inconclusive("UNCONFIRMED counterexample (does not reproduce natively; encoding or stub suspect): %s %s%v assert=%s %s vars=%v native=%+v",
				f.Label, f.Entry, f.Args, f.AssertID, trunc(f.Msg, 200), f.Vars, f.Native)
			if len(f.Obs) > 0 {
				fmt.Printf("  engine observations: %v\n", f.Obs)
			}
			continue
		}
		if k := c.matchKnown(f); k != nil {
			f.Known = k.ID
			knownSeen[k.ID] = k
			continue
		}
		nviol++
		sig := fmt.Sprintf("%s-%s-%s", c.Prop, sanitize(f.Label+"-"+f.Entry), sanitize(f.AssertID))
		path := filepath.Join(verifRoot, "replays", sig+".json")
		f.Replay = path
		data, _ := json.MarshalIndent(f, "", " ")
		os.WriteFile(path, data, 0o644)
		fmt.Printf("VIOLATION property=%s replay=%s\n", c.Prop, path)
		fmt.Printf("  %s %s%v assert=%s: %s\n  vars=%v strings=%v\n", f.Label, f.Entry, f.Args, f.AssertID, trunc(f.Msg, 300), f.Vars, f.Strs)
		exit = 1
	}
	ks := make([]string, 0, len(knownSeen))
	for id := range knownSeen {
		ks = append(ks, id)
	}
	sort.Strings(ks)
	for _, id := range ks {
		fmt.Printf("KNOWN-FINDING: property=%s %s: %s\n", c.Prop, id, knownSeen[id].What)
	}
	if len(c.Inconclusive) > 0 {
		for i, m := range c.Inconclusive {
			if i >= 25 {
				fmt.Printf("INCONCLUSIVE: ... %d more\n", len(c.Inconclusive)-i)
				break
			}
			fmt.Println("INCONCLUSIVE:", m)
		}
		if exit == 0 {
			exit = 3
		}
	}
	// evidence
	fnames := sortedKeys(funcs)
	fenc := make([]string, 0, len(fnames))
	ninstr := 0
	for _, n := range fnames {
		ninstr += funcs[n]
		if len(fenc) < 400 {
			fenc = append(fenc, fmt.Sprintf("%s (%d instrs)", n, funcs[n]))
		}
	}
	samples := c.Samples
	if len(samples) == 0 {
		// a few explored paths from different instances, preferring ones with a non-trivial model
		seenInst := map[string]bool{}
		for pass := 0; pass < 2 && len(samples) < 6; pass++ {
			for _, jr := range c.Results {
				if jr.Res == nil || len(samples) >= 6 || seenInst[jr.Job.Label] {
					continue
				}
				for _, sm := range jr.Res.Samples {
					if pass == 0 && len(sm.Model) < 2 {
						continue
					}
					smp := map[string]any{"harness": jr.Job.Entry, "args": jr.Job.Args, "instance": jr.Job.Label,
						"solver_model": sm.Model, "observations": sm.Obs, "witnesses": sm.Reached}
					if len(sm.Strs) > 0 {
						in := map[string]string{}
						for k, rs := range sm.Strs {
							var b strings.Builder
							for _, r := range rs {
								b.WriteRune(rune(r))
							}
							in[k] = fmt.Sprintf("%q", b.String())
						}
						smp["symbolic_strings_under_model"] = in
					}
					if g, ok := jr.Job.Meta["grammar"].(string); ok {
						if i := strings.Index(g, "}\n\n"); i >= 0 {
							g = g[i+3:]
						}
						smp["grammar"] = trunc(g, 600)
					}
					if jr.Res.ExampleQuery != "" {
						smp["a_discharged_query_of_this_instance"] = jr.Res.ExampleQuery
					}
					samples = append(samples, smp)
					seenInst[jr.Job.Label] = true
					break
				}
			}
		}
	}
	if len(samples) == 0 {
		samples = append(samples, map[string]any{"note": "no sampled path (see inconclusive)"})
	}
	cov := map[string]any{
		"states":                        paths,
		"transitions":                   decisions,
		"traces_validated_against_impl": c.Validated,
		"samples":                       samples,
		"evaluations":                   paths,
		"distinct_nontrivial":           nontrivial,
		"rule": "one evaluation = one feasible path of a harness through the real code (a class of inputs characterised by its path condition); " +
			"non-trivial = the path took at least one solver-decided branch and reached an assertion; paths are distinct by construction (DFS over decisions)",
		"harness_instances":         len(c.Results),
		"programs":                  c.Programs,
		"functions_encoded":         fenc,
		"functions_encoded_n":       len(fnames),
		"ssa_instructions_encoded":  ninstr,
		"ssa_instructions_executed": steps,
		"max_path_steps":            maxSteps,
		"bounds":                    c.Bounds,
		"assertions_discharged":     asserts,
		"assertions_by_id":          assertIDs,
		"queries": map[string]int{"branch": q.Branch, "assert": q.Assert, "assume": q.Assume, "concretize": q.Concretize,
			"witness_models": q.Witness, "sat": q.Sat, "unsat": q.Unsat, "unknown": q.Unknown},
		"solver":                map[string]any{"binary": "z3 -in (incremental, push/pop)", "version": solverVersion("z3"), "seconds": solverT.Seconds()},
		"cross_solver":          c.Cross,
		"stubs_hit":             stubs,
		"witnesses":             witnesses,
		"path_ends":             ends,
		"assume_pruned":         pruned,
		"known_findings_seen":   ks,
		"inconclusive":          c.Inconclusive,
		"validation_mismatches": c.ValidationMismatch,
		"load_seconds":          c.LoadTime.Seconds(),
		"notes":                 c.Notes,
		"exhaustive":            false,
	}
	ev := Evidence{PropertyID: c.Prop, Tier: c.Tier, Seed: c.Seed, Level: "model_checking", Coverage: cov,
		Assumptions: c.Assumptions, WallS: time.Since(c.Start).Seconds(), Violations: nviol}
	if ev.Assumptions == nil {
		ev.Assumptions = []string{}
	}
	os.MkdirAll(filepath.Join(verifRoot, "evidence"), 0o755)
	data, _ := json.MarshalIndent(ev, "", " ")
	if err := os.WriteFile(filepath.Join(verifRoot, "evidence", c.Prop+".json"), data, 0o644); err != nil {
		fmt.Fprintln(os.Stderr, "writing evidence:", err)
		if exit == 0 {
			exit = 3
		}
	}
	fmt.Printf("%s %s: instances=%d paths=%d decided-branches=%d asserts-discharged=%d queries=%d (sat %d unsat %d unknown %d) validated=%d violations=%d known=%d inconclusive=%d wall=%.1fs solver=%.1fs\n",
		c.Prop, c.Tier, len(c.Results), paths, decisions, asserts, q.Sat+q.Unsat+q.Unknown, q.Sat, q.Unsat, q.Unknown, c.Validated, nviol, len(ks),
		len(c.Inconclusive), time.Since(c.Start).Seconds(), solverT.Seconds())
	fmt.Printf("  time: load+ssa %.1fs, explore %.1fs, native replay/validation %.1fs\n", c.LoadTime.Seconds(), c.ExploreTime.Seconds(), c.NativeTime.Seconds())
	return exit
}

func sanitize(s string) string {
	var b strings.Builder
	for _, r := range s {
		switch {
		case r >= 'a' && r <= 'z', r >= 'A' && r <= 'Z', r >= '0' && r <= '9', r == '-', r == '_':
			b.WriteRune(r)
		default:
			b.WriteByte('_')
		}
	}
	out := b.String()
	if len(out) > 80 {
		out = out[:80]
	}
	return out
}

var solverVersions = map[string]string{}

func solverVersion(bin string) string {
	if v, ok := solverVersions[bin]; ok {
		return v
	}
	out, _ := run("/", bin, "--version")
	v := strings.TrimSpace(strings.SplitN(out, "\n", 2)[0])
	solverVersions[bin] = v
	return v
}
