package main

import (
	"encoding/json"
	"fmt"
	"os"
	"os/exec"
	"path/filepath"
	"runtime"
	"sort"
	"strings"
	"sync"
	"time"

	"golang.org/x/tools/go/ssa"

	"verif/symx"
)

// Job is one harness instance: an entry function with concrete arguments.
type Job struct {
	PkgPath   string // import path of the harness package
	Entry     string
	Args      []int
	Label     string   // human-readable instance (grammar id, variant set, ...)
	Need      []string // reachability witnesses that must be hit on some path
	MaxPaths  int
	MaxSteps  int  // per-path step budget override (long inputs)
	NoSamples bool // do not keep path samples for native validation
	Meta      map[string]any
}

type JobResult struct {
	Job *Job
	Res *symx.Result
	Err string
}

var transcriptDir = os.Getenv("VERIF_TRANSCRIPT")
var transcriptSeq int
var traceJobs = os.Getenv("VERIF_TRACEJOBS") != ""

// interpretSet decides which packages are executed from SSA.
func interpretDefault(path string) bool {
	switch {
	case strings.HasPrefix(path, "github.com/pointlander/peg"), strings.HasPrefix(path, "hx"), strings.HasPrefix(path, "vhlib"),
		strings.HasPrefix(path, "vwork"):
		return true
	}
	switch path {
	case "slices", "iter", "cmp", "maps", "sort", "math/bits":
		return true
	}
	return false
}

// RunJobs explores all jobs on `workers` engines.
func RunJobs(l *Loaded, jobs []*Job, workers int, cfg symx.Config, deadline time.Time) []*JobResult {
	if only := os.Getenv("VERIF_ONLY"); only != "" {
		var keep []*Job
		for _, j := range jobs {
			if strings.Contains(fmt.Sprintf("%s|%s%v", j.Label, j.Entry, j.Args), only) {
				keep = append(keep, j)
			}
		}
		jobs = keep
	}
	if v := os.Getenv("VERIF_VALIDATE_EVERY"); v != "" { // debugging: sample more paths
		fmt.Sscan(v, &cfg.ValidateEvery)
	}
	if workers <= 0 {
		workers = runtime.NumCPU()
	}
	if workers > len(jobs) {
		workers = len(jobs)
	}
	results := make([]*JobResult, len(jobs))
	var wg sync.WaitGroup
	next := 0
	var mu sync.Mutex
	for w := 0; w < workers; w++ {
		wg.Add(1)
		wid := w
		go func() {
			defer wg.Done()
			c := cfg
			c.Deadline = deadline
			if c.Interpret == nil {
				c.Interpret = interpretDefault
			}
			if dir := transcriptDir; dir != "" {
				mu.Lock()
				transcriptSeq++
				seq := transcriptSeq
				mu.Unlock()
				f, _ := os.Create(filepath.Join(dir, fmt.Sprintf("worker-%d-%d.smt2", seq, wid)))
				if f != nil {
					defer f.Close()
					c.Transcript = f
				}
			}
			eng, err := symx.NewEngine(l.Prog, c)
			if err != nil {
				panic(err)
			}
			defer eng.Close()
			for {
				mu.Lock()
				i := next
				next++
				mu.Unlock()
				if i >= len(jobs) {
					return
				}
				j := jobs[i]
				if traceJobs {
					fmt.Fprintf(os.Stderr, "start %s %s%v\n", j.Label, j.Entry, j.Args)
				}
				results[i] = runJob(eng, l, j)
				if eng.SolverDead() {
					fmt.Fprintf(os.Stderr, "solver died during %s %s%v; restarting\n", j.Label, j.Entry, j.Args)
					eng.Close()
					eng, err = symx.NewEngine(l.Prog, c)
					if err != nil {
						panic(err)
					}
				}
				if traceJobs {
					fmt.Fprintf(os.Stderr, "done  %s %s%v\n", j.Label, j.Entry, j.Args)
				}
			}
		}()
	}
	wg.Wait()
	return results
}

func runJob(eng *symx.Engine, l *Loaded, j *Job) (jr *JobResult) {
	jr = &JobResult{Job: j}
	defer func() {
		if r := recover(); r != nil {
			buf := make([]byte, 1<<14)
			n := runtime.Stack(buf, false)
			jr.Err = fmt.Sprintf("engine failure: %v\n%s", r, buf[:n])
		}
	}()
	pkg := l.Pkgs[j.PkgPath]
	if pkg == nil {
		jr.Err = "package not loaded: " + j.PkgPath
		return
	}
	fn := pkg.Func(j.Entry)
	if fn == nil {
		jr.Err = "no entry " + j.Entry + " in " + j.PkgPath
		return
	}
	args := make([]symx.Value, len(j.Args))
	for i, a := range j.Args {
		args[i] = int64(a)
	}
	if j.MaxPaths > 0 {
		eng.SetMaxPaths(j.MaxPaths)
	} else {
		eng.SetMaxPaths(0)
	}
	eng.SetMaxSteps(j.MaxSteps)
	eng.SetValidate(!j.NoSamples)
	jr.Res = eng.Explore(fn, args)
	return
}

var _ *ssa.Package

// ---- native replay ----

// ReplayCase mirrors vhlib/rt.Case.
type ReplayCase struct {
	Entry string            `json:"entry"`
	Args  []int             `json:"args"`
	Vars  map[string]uint64 `json:"vars"`
}

type ReplayOutcome struct {
	Entry        string        `json:"entry"`
	Failed       []string      `json:"failed"`
	Reached      []string      `json:"reached"`
	Obs          []symx.ObsVal `json:"obs"`
	Panic        string        `json:"panic"`
	AssumeFailed bool          `json:"assume_failed"`
}

// NativeRunner builds and runs the native replay driver of one harness package.
type NativeRunner struct {
	Dir     string // module dir in which to build
	PkgPath string // harness package import path
	Entries []string
	Race    bool // build with the race detector; a report counts as failing "race-detector"
	InPkg   bool // the harness lives in package main of Dir: replay through a generated _test.go
	bin     string
	err     error
	once    sync.Once
	cmdDir  string
}

func (n *NativeRunner) build() {
	n.once.Do(func() {
		if n.InPkg {
			n.buildInPkg()
			return
		}
		name := "replay_" + strings.NewReplacer("/", "_", ".", "_").Replace(n.PkgPath)
		n.cmdDir = filepath.Join(n.Dir, "zzcmd", name)
		os.MkdirAll(n.cmdDir, 0o755)
		var b strings.Builder
		b.WriteString("package main\n\nimport (\n\t\"vhlib/rt\"\n\th \"" + n.PkgPath + "\"\n)\n\nfunc main() {\n\trt.Main(map[string]any{\n")
		for _, e := range n.Entries {
			fmt.Fprintf(&b, "\t\t%q: h.%s,\n", e, e)
		}
		b.WriteString("\t})\n}\n")
		if err := os.WriteFile(filepath.Join(n.cmdDir, "main.go"), []byte(b.String()), 0o644); err != nil {
			n.err = err
			return
		}
		n.bin = filepath.Join(n.cmdDir, "replay.bin")
		args := []string{"build", "-o", n.bin}
		if n.Race {
			args = append(args, "-race")
		}
		args = append(args, "./"+filepath.ToSlash(strings.TrimPrefix(n.cmdDir, n.Dir+"/")))
		out, err := run(n.Dir, "go", args...)
		if err != nil {
			n.err = fmt.Errorf("native replay build failed: %v\n%s", err, out)
		}
	})
}

// buildInPkg: the harness is in package main; a generated test file is the replay driver.
func (n *NativeRunner) buildInPkg() {
	n.cmdDir = n.Dir
	var b strings.Builder
	b.WriteString("package main\n\nimport (\n\t\"os\"\n\t\"testing\"\n\n\t\"vhlib/rt\"\n)\n\nfunc TestVerifReplay(t *testing.T) {\n\tos.Args = []string{\"replay\", os.Getenv(\"VERIF_CASES\")}\n\trt.Main(map[string]any{\n")
	for _, e := range n.Entries {
		fmt.Fprintf(&b, "\t\t%q: %s,\n", e, e)
	}
	b.WriteString("\t})\n}\n")
	if err := os.WriteFile(filepath.Join(n.Dir, "zz_verif_replay_test.go"), []byte(b.String()), 0o644); err != nil {
		n.err = err
		return
	}
	n.bin = filepath.Join(n.Dir, "zz_replay.test.bin")
	out, err := run(n.Dir, "go", "test", "-c", "-vet=off", "-o", n.bin, ".")
	if err != nil {
		n.err = fmt.Errorf("native replay build failed: %v\n%s", err, out)
	}
}

// Run executes the cases natively and returns one outcome per case.
func (n *NativeRunner) Run(cases []ReplayCase, timeout time.Duration) ([]ReplayOutcome, error) {
	n.build()
	if n.err != nil {
		return nil, n.err
	}
	f, err := os.CreateTemp(n.cmdDir, "cases-*.json")
	if err != nil {
		return nil, err
	}
	json.NewEncoder(f).Encode(cases)
	f.Close()
	defer os.Remove(f.Name())
	cmd := exec.Command(n.bin, f.Name())
	cmd.Env = goEnv()
	if n.InPkg {
		cmd = exec.Command(n.bin, "-test.run", "^TestVerifReplay$")
		cmd.Env = append(goEnv(), "VERIF_CASES="+f.Name())
		cmd.Dir = n.Dir
	}
	var out strings.Builder
	var errb strings.Builder
	cmd.Stdout = &out
	cmd.Stderr = &errb
	if err := cmd.Start(); err != nil {
		return nil, err
	}
	done := make(chan error, 1)
	go func() { done <- cmd.Wait() }()
	var werr error
	select {
	case werr = <-done:
	case <-time.After(timeout):
		cmd.Process.Kill()
		<-done
		werr = fmt.Errorf("native replay timed out after %v", timeout)
	}
	var outs []ReplayOutcome
	dec := json.NewDecoder(strings.NewReader(out.String()))
	for dec.More() {
		var o ReplayOutcome
		if err := dec.Decode(&o); err != nil {
			break
		}
		outs = append(outs, o)
	}
	if n.Race && strings.Contains(errb.String(), "DATA RACE") {
		for i := range outs {
			outs[i].Failed = append(outs[i].Failed, "race-detector")
		}
		if len(outs) == 0 {
			outs = append(outs, ReplayOutcome{Entry: cases[0].Entry, Failed: []string{"race-detector"}})
		}
		werr = nil
	}
	if n := len(outs); n > 0 && strings.HasPrefix(outs[n-1].Panic, "timed out") {
		// the replay process stopped itself after reporting the case that hung
		werr = nil
	}
	if werr != nil && len(outs) < len(cases) {
		// the case after the last outcome crashed or hung the process
		outs = append(outs, ReplayOutcome{Entry: cases[len(outs)].Entry, Panic: "process died: " + werr.Error() + ": " + trunc(errb.String(), 400)})
	}
	return outs, nil
}

func trunc(s string, n int) string {
	if len(s) > n {
		return s[:n] + "…"
	}
	return s
}

// ---- findings ----

// Finding is a confirmed or unconfirmed violation.
type Finding struct {
	Property  string             `json:"property"`
	Tier      string             `json:"tier"`
	Seed      int64              `json:"seed"`
	Label     string             `json:"label"`
	Entry     string             `json:"entry"`
	Args      []int              `json:"args"`
	PkgPath   string             `json:"pkg"`
	Kind      string             `json:"kind"`
	AssertID  string             `json:"assert_id"`
	Msg       string             `json:"msg"`
	Vars      map[string]uint64  `json:"vars"`
	Strs      map[string][]int64 `json:"strings,omitempty"`
	Confirmed bool               `json:"confirmed_natively"`
	Native    *ReplayOutcome     `json:"native_outcome,omitempty"`
	Meta      map[string]any     `json:"meta,omitempty"`
	Obs       []symx.ObsVal      `json:"engine_observations,omitempty"`
	Known     string             `json:"known_finding,omitempty"`
	Replay    string             `json:"replay_file,omitempty"`
}

func sortedKeys[V any](m map[string]V) []string {
	ks := make([]string, 0, len(m))
	for k := range m {
		ks = append(ks, k)
	}
	sort.Strings(ks)
	return ks
}
