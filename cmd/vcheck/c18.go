package main

import (
	"fmt"
	"os"
	"os/exec"
	"path/filepath"
	"strings"
	"time"

	"verif/symx"
)

func init() {
	checks["C18"] = checkC18
}

const pegPkg = "github.com/pointlander/peg"

func checkC18(c *Ctx) error {
	ws := c.WS
	if err := ws.BuildPeg(); err != nil {
		return err
	}
	src, err := os.ReadFile(filepath.Join(verifRoot, "harness", "c18", "zz_verif_c18.go.txt"))
	if err != nil {
		return err
	}
	if err := os.WriteFile(filepath.Join(ws.Repo, "zz_verif_c18.go"), src, 0o644); err != nil {
		return err
	}
	l, err := LoadSSA(ws.Repo, ".")
	if err != nil {
		return err
	}
	if err := l.FirstBad(); err != nil {
		return err
	}
	c.LoadTime = l.LoadTime
	var jobs []*Job
	for nargs := 0; nargs <= 2; nargs++ {
		for out := 0; out <= 2; out++ {
			jobs = append(jobs, &Job{PkgPath: pegPkg, Entry: "VerifC18", Args: []int{nargs, out}, Label: "main",
				Need: []string{"exit0", "nonzero", "version"}})
		}
	}
	cfg := symx.DefaultConfig()
	cfg.ExtraStubs = symx.MainStubs(pegPkg)
	cfg.ValidateEvery = 2
	res := RunJobs(l, jobs, c.Workers, cfg, c.Deadline)
	c.Programs = 1
	c.Bounds["environment"] = "every os.Open / os.OpenFile / io.ReadAll / Parse / Compile / Close outcome is a symbolic boolean (success or error), all combinations explored"
	c.Bounds["flags"] = "-inline -switch -noast -strict -print -syntax -version symbolic booleans; argument in {none, g.peg, -}; -output in {unset, -, out.go}"
	c.Bounds["outside"] = "the real operating system; partial writes inside Compile (A-COMPILE); flag parsing itself (flag package stubbed)"
	c.Assumptions = append(c.Assumptions, "A-SSA", "A-SMT",
		"A-COMPILE: (*tree.Tree).Compile returns nil only after the formatted parser was written to its out argument (single 'return nil' after formatter.Fprint)",
		"front end (Init/Parse/Execute) and generator (Compile) are nondeterministic stubs in this harness; their behaviour is the subject of C10/C15/C01",
		"an unrecovered panic ends the process with status 2 and a message on stderr (Go runtime)")
	c.Process(res, nil)
	// sampled paths: the real binary in the corresponding real environment must exit the way
	// the engine computed (zero / non-zero)
	for _, jr := range res {
		if jr.Res == nil {
			continue
		}
		for _, smp := range jr.Res.Samples {
			f := &Finding{Entry: jr.Job.Entry, Args: jr.Job.Args, Vars: smp.Model}
			skip := smp.Model["fault_open_1"] == 1 && jr.Job.Args[0] != 1
			for k, v := range smp.Model {
				if strings.HasPrefix(k, "fault_close") && v == 1 {
					skip = true // a failing close cannot be injected natively
				}
				if strings.HasPrefix(k, "env_") {
					skip = true // environment facts (stat results, timestamps) are not realised for samples
				}
			}
			if skip {
				continue
			}
			o, err := replayC18v(ws, f, 0) // validation compares one fixed realisation of each fault
			if err != nil || len(o.Obs) == 0 {
				continue
			}
			engineExit := ""
			for _, ob := range smp.Obs {
				if ob.ID == "exit" {
					engineExit = ob.Val
				}
			}
			if (engineExit == "0") != (o.Obs[0].Val == "0") {
				c.inconclusive("encoder validation mismatch: C18 %v vars=%v: engine exit %s, real binary exit %s (%v)", jr.Job.Args, smp.Model, engineExit, o.Obs[0].Val, o.Obs)
			} else {
				c.Validated++
				if len(c.Samples) < 4 {
					c.Samples = append(c.Samples, map[string]any{"harness": "VerifC18", "args": jr.Job.Args, "solver_model": smp.Model,
						"engine_observations": smp.Obs, "real_binary": o.Obs})
				}
			}
		}
	}
	// the assumption A-COMPILE is itself checked: the real Compile into a writer that may fail
	if err := checkCompileWrites(c); err != nil {
		return err
	}
	// counterexamples are confirmed against the real binary in a real environment
	for _, f := range c.Findings {
		if f.Property == "C18" && !f.Confirmed {
			if o, err := replayC18(ws, f); err == nil {
				f.Native = o
				for _, id := range o.Failed {
					if id == f.AssertID {
						f.Confirmed = true
					}
				}
			}
		}
	}
	return nil
}

// replayC18 reproduces a C18 counterexample against the real binary: the injected faults of the
// solver's model are turned into a real environment (missing file, directory as input,
// malformed grammar, grammar whose action is not Go, destination that cannot be opened).
//
// The abstract fault "compile" (Compile returns an error) has several concrete realisations —
// an action that is not Go, the same in a grammar that also draws a warning, and a warned
// grammar whose destination accepts the open but rejects the writes. Each is tried in turn and
// the first one in which the real binary violates an assertion is the confirmation; a
// counterexample is reported only if one of them reproduces it.
func replayC18(ws *Workspace, f *Finding) (*ReplayOutcome, error) {
	if f.Vars["fault_compile_1"] != 1 {
		return replayC18v(ws, f, 0)
	}
	var first *ReplayOutcome
	for v := 0; v < 3; v++ {
		o, err := replayC18v(ws, f, v)
		if err != nil {
			return first, err
		}
		if first == nil {
			first = o
		}
		if len(o.Failed) > 0 {
			o.Obs = append(o.Obs, symx.ObsVal{ID: "compile-fault-realisation", Val: []string{"action is not Go", "warned grammar, action is not Go", "warned grammar, destination rejects writes"}[v]})
			return o, nil
		}
	}
	return first, nil
}

func replayC18v(ws *Workspace, f *Finding, variant int) (*ReplayOutcome, error) {
	if ws.PegBin == "" {
		os.Remove(filepath.Join(ws.Repo, "zz_verif_c18.go"))
		if err := ws.BuildPeg(); err != nil {
			return nil, err
		}
	}
	dir, err := os.MkdirTemp(ws.Dir, "c18-")
	if err != nil {
		return nil, err
	}
	nargs, outSel := 0, 0
	if len(f.Args) == 2 {
		nargs, outSel = f.Args[0], f.Args[1]
	}
	fault := func(name string) bool {
		if name == "flush" && variant == 2 {
			return true // the destination rejects writes: the same realisation as a flush fault
		}
		return f.Vars["fault_"+name+"_1"] == 1
	}
	flagOn := func(name string) bool { return f.Vars[name] == 1 }
	good := "package p\n\ntype T Peg {}\n\nS <- 'a' !.\n"
	grammar := good
	switch {
	case fault("parse"):
		grammar = "package p\n\ntype T Peg {}\n\nS <- ( 'a'\n"
	case fault("compile") && variant == 0:
		grammar = "package p\n\ntype T Peg {}\n\nS <- 'a' { this is not go ))) }\n"
	case fault("compile") && variant == 1:
		grammar = "package p\n\ntype T Peg {}\n\nS <- 'a' { this is not go ))) }\nUnused <- 'b'\n"
	case fault("compile") && variant == 2:
		grammar = "package p\n\ntype T Peg {}\n\nS <- 'a' !.\nUnused <- 'b'\n"
	}
	var args []string
	for _, fl := range []string{"inline", "switch", "noast", "strict", "print", "syntax", "version"} {
		if flagOn(fl) {
			args = append(args, "-"+fl)
		}
	}
	outPath := ""
	switch outSel {
	case 1:
		args = append(args, "-output", "-")
	case 2:
		outPath = "out.go"
		if fault("openfile") {
			outPath = "nodir/out.go"
		} else if fault("flush") {
			os.Symlink("/dev/full", filepath.Join(dir, outPath))
		} else {
			// a longer, older file already sits at the destination
			os.WriteFile(filepath.Join(dir, outPath), []byte(strings.Repeat("// stale line of an older, longer output\n", 2000)), 0o644)
		}
		args = append(args, "-output", outPath)
	}
	var stdin *os.File
	inName := ""
	switch nargs {
	case 1:
		inName = "g.peg"
		switch {
		case fault("open"):
			inName = "missing.peg"
		case fault("read"):
			os.Mkdir(filepath.Join(dir, "g.peg"), 0o755)
		default:
			os.WriteFile(filepath.Join(dir, "g.peg"), []byte(grammar), 0o644)
			// the grammar is older than whatever already sits at the destination
			old := time.Now().Add(-time.Hour)
			os.Chtimes(filepath.Join(dir, "g.peg"), old, old)
		}
		if outSel == 0 {
			outPath = inName + ".go"
			if fault("openfile") {
				os.Mkdir(filepath.Join(dir, outPath), 0o755)
			} else if fault("flush") {
				os.Symlink("/dev/full", filepath.Join(dir, outPath))
			} else {
				os.WriteFile(filepath.Join(dir, outPath), []byte(strings.Repeat("// stale line of an older, longer output\n", 2000)), 0o644)
			}
		}
		args = append(args, inName)
	default:
		if nargs == 2 {
			args = append(args, "-")
		}
		if fault("read") {
			stdin, _ = os.Open(dir)
		} else {
			os.WriteFile(filepath.Join(dir, "stdin.peg"), []byte(grammar), 0o644)
			stdin, _ = os.Open(filepath.Join(dir, "stdin.peg"))
		}
		if fault("open") {
			return &ReplayOutcome{Entry: f.Entry}, nil // open cannot fail when reading standard input
		}
	}
	if fault("close") {
		return &ReplayOutcome{Entry: f.Entry}, nil // a failing close cannot be injected natively
	}
	cmd := exec.Command(ws.PegBin, args...)
	cmd.Dir = dir
	cmd.Stdin = stdin
	var stdout, stderr strings.Builder
	cmd.Stdout, cmd.Stderr = &stdout, &stderr
	if fault("flush") && outPath == "" {
		if full, err := os.OpenFile("/dev/full", os.O_WRONLY, 0); err == nil {
			cmd.Stdout = full
			defer full.Close()
		}
	}
	err = cmd.Run()
	code := 0
	if err != nil {
		if ee, ok := err.(*exec.ExitError); ok {
			code = ee.ExitCode()
		} else {
			return nil, err
		}
	}
	anyFault := fault("open") || fault("read") || fault("parse") || fault("compile") || fault("openfile") || fault("flush")
	written := stdout.String()
	if outPath != "" {
		written = ""
		// only a regular file is read back (the flush fault makes the destination /dev/full,
		// which reads as an endless stream of zeros)
		if st, err := os.Stat(filepath.Join(dir, outPath)); err == nil && st.Mode().IsRegular() {
			data, _ := os.ReadFile(filepath.Join(dir, outPath))
			written = string(data)
		}
	}
	complete := strings.Contains(written, "func (p *T[U]) Init(") && strings.HasSuffix(strings.TrimSpace(written), "}") &&
		!strings.Contains(written, "// stale line of an older, longer output")
	o := &ReplayOutcome{Entry: f.Entry}
	o.Obs = append(o.Obs, symx.ObsVal{ID: "exit", Val: fmt.Sprint(code)}, symx.ObsVal{ID: "stderr", Val: trunc(stderr.String(), 200)},
		symx.ObsVal{ID: "complete-parser-written", Val: fmt.Sprint(complete)}, symx.ObsVal{ID: "args", Val: strings.Join(args, " ")})
	if !flagOn("version") {
		if code == 0 && anyFault {
			o.Failed = append(o.Failed, "exit0/no-fault")
		}
		if code == 0 && !complete {
			o.Failed = append(o.Failed, "exit0/complete-parser-written", "exit0/destination-holds-only-the-new-parser", "exit0/destination-is-the-requested-one")
		}
		if code != 0 && stderr.Len() == 0 {
			o.Failed = append(o.Failed, "nonzero/has-message")
		}
		if code != 0 && !anyFault {
			o.Failed = append(o.Failed, "nonzero/only-on-fault")
		}
	} else if code != 0 {
		o.Failed = append(o.Failed, "version/exit-zero")
	}
	return o, nil
}

func init() { replayers["C18"] = replayC18 }

// checkCompileWrites discharges A-COMPILE: (*tree.Tree).Compile (real code, back end stubs that
// pass text to the destination) returns nil only if the output was written and no write failed.
func checkCompileWrites(c *Ctx) error {
	ws := c.WS
	if err := ws.CopyHarness("c15", filepath.Join(ws.HX, "c15")); err != nil {
		return err
	}
	l, err := LoadSSA(ws.HX, "./c15")
	if err != nil {
		return err
	}
	if err := l.FirstBad(); err != nil {
		return err
	}
	var jobs []*Job
	for _, b := range []int{0, 100, 200, 10, 210} {
		jobs = append(jobs, &Job{PkgPath: "hx/c15", Entry: "CompileWrites", Args: []int{b}, Label: "compile-writes", Need: []string{"written", "error"}})
	}
	cfg := symx.DefaultConfig()
	cfg.ValidateEvery = 10
	cfg.ExtraStubs = symx.CompileStubs()
	runner := &NativeRunner{Dir: ws.HX, PkgPath: "hx/c15", Entries: c15Entries}
	res := RunJobs(l, jobs, c.Workers, cfg, c.Deadline)
	c.Process(res, func(*Job) *NativeRunner { return runner })
	return nil
}
