package main

import (
	"fmt"
	"os"
	"strconv"
	"strings"

	"verif/family"
	"verif/symx"
)

// parserFamily selects the grammar family for a parser property and tier.
func parserFamily(c *Ctx, kind string) []*family.Grammar {
	size, nTerm, nOutlineSrc := 3, 110, 25
	if !c.Quick() {
		size, nTerm, nOutlineSrc = 4, 1000, 120
	}
	var gs []*family.Grammar
	gs = append(gs, family.Long()...) // first: their jobs are the longest
	gs = append(gs, family.Shapes()...)
	if c.Prop == "C02" || c.Prop == "C04" || c.Prop == "C11" {
		gs = append(gs, family.LookaheadSwitched()...)
	}
	gs = append(gs, family.Emission()...)
	gs = append(gs, family.EndLookahead()...)
	basis := family.Dedup(family.Basis(size))
	if !c.Quick() {
		// all of size <= 3 plus a seeded sample of size 4
		small := family.Dedup(family.Basis(3))
		gs = append(gs, small...)
		gs = append(gs, basis[len(small):]...) // every well-formed expression of size 4
		// and a seeded sample of the 18 871 well-formed expressions of size 5
		big := family.Dedup(family.Basis(5))
		gs = append(gs, family.Sample(big[len(basis):], 2500, c.Seed+2)...)
	} else {
		gs = append(gs, basis...)
		// a seeded sample of size 4 (all of it is in the thorough tier)
		four := family.Dedup(family.Basis(4))
		gs = append(gs, family.Sample(four[len(basis):], 120, c.Seed+2)...)
	}
	gs = append(gs, family.Sample(family.Dedup(family.TerminalLayer()), nTerm, c.Seed)...)
	// multi-rule variants of a seeded sample of the basis
	for _, g := range family.Sample(family.Dedup(family.Basis(3)), nOutlineSrc, c.Seed+1) {
		gs = append(gs, family.Outline(g)...)
	}
	gs = family.Dedup(gs)
	switch kind {
	case "actions": // grammars with at least one action
		gs = filter(gs, func(g *family.Grammar) bool { return g.NAct > 0 })
	case "choices": // grammars with an ordered choice of >= 3 alternatives or any rule reference
		gs = filter(gs, func(g *family.Grammar) bool { return g.MaxAlts() >= 3 || len(g.G.Rules) > 1 })
	}
	return gs
}

func filter(gs []*family.Grammar, keep func(*family.Grammar) bool) []*family.Grammar {
	var out []*family.Grammar
	for _, g := range gs {
		if keep(g) {
			out = append(out, g)
		}
	}
	return out
}

func parserCfg(c *Ctx) symx.Config {
	cfg := symx.DefaultConfig()
	cfg.ValidateEvery = 50
	cfg.MaxPaths = 60000
	if !c.Quick() {
		cfg.MaxPaths = 400000
	}
	return cfg
}

func validateEvery(c *Ctx) int {
	if c.Quick() {
		return 8
	}
	return 4
}

// maxN: input lengths 0..N are explored with every rune symbolic. Quick N = 5; thorough N = 6
// for the properties that run several parsers per path (C02, C07, C13) and 7 for the others
// (nFor adds one rune on the curated shapes and on grammars with few terminal classes).
func maxN(c *Ctx) int {
	if v := os.Getenv("VERIF_N"); v != "" { // calibration only
		n, _ := strconv.Atoi(v)
		return n
	}
	if c.Quick() {
		return 5
	}
	switch c.Prop {
	case "C02", "C07", "C13":
		return 6
	}
	return 7
}

var stdAssumptions = []string{
	"A-SSA: go/ssa (x/tools v0.50.0, go1.26.8) translates the generated parser faithfully",
	"A-SMT: cvc5 1.0.3 answers are correct (thorough tier cross-checks with z3)",
	"A-UTF8: Go's string<->[]rune conversion follows the language spec, so every Go string is covered by 'n valid runes' (invalid bytes decode to U+FFFD)",
	"the grammar dimension is the enumerated family (evidence.bounds.family_size/digest), not solver-quantified",
	"grammars are well-formed by an independent Ford-style analysis (precondition of the property)",
}

// nFor: the thorough tier explores one rune more on the curated shapes and on grammars with few
// distinguishable terminal classes (path growth per rune is small there).
func nFor(c *Ctx, gg *GenGrammar, n int) int {
	curated := strings.HasPrefix(gg.G.Tag, "shape/") || strings.HasPrefix(gg.G.Tag, "endlook/")
	if c.Quick() {
		if curated {
			return n + 1
		}
		return n
	}
	if curated || gg.G.Classes() <= 3 {
		return n + 1
	}
	return n
}

// longCases lists (length, hole, hole) for a grammar of the long-input layer: lengths around
// 2^8 (both tiers) and up to 2^16 (thorough, grammars whose token count does not grow), each with
// no hole, holes at both ends, at the last two runes, and in the middle.
func longCases(c *Ctx, g *family.Grammar, limit int) [][3]int {
	ls := []int{17, 255, 256, 260}
	if !c.Quick() {
		ls = []int{17, 33, 64, 254, 255, 256, 257, 260, 300, 1000}
		if g.Flat {
			ls = append(ls, 65535, 65536)
		}
	}
	var out [][3]int
	for _, l := range ls {
		if l > g.LongMax || (limit > 0 && l > limit) {
			continue
		}
		out = append(out, [3]int{l, -1, -1}, [3]int{l, 0, l - 1}, [3]int{l, l - 2, l - 1}, [3]int{l, l / 2, l/2 + 1})
	}
	return out
}

// longJobs: entry twin `<entry>L(h1, h2, n, tail...)` on every long case.
func longJobs(c *Ctx, gg *GenGrammar, entry string, limit int, tail ...int) []*Job {
	var jobs []*Job
	for _, lc := range longCases(c, gg.G, limit) {
		args := append([]int{lc[1], lc[2], lc[0]}, tail...)
		jobs = append(jobs, &Job{Entry: entry + "L", Args: args, MaxSteps: 2_000_000 + 20_000*lc[0]})
	}
	return jobs
}

// rawJobs: inputs with invalid UTF-8 (or NUL) at the first or last place, the other runes
// arbitrary; on the curated shapes and every sixth other grammar.
func rawJobs(c *Ctx, entry string, tail ...int) func(gg *GenGrammar) []*Job {
	return func(gg *GenGrammar) []*Job {
		if !(strings.HasPrefix(gg.G.Tag, "shape/") || gg.Idx%6 == 0) {
			return nil
		}
		kinds := []int{0, 2, 5}
		runes := []int{1, 2, 1}
		ns := []int{2, 4}
		if !c.Quick() {
			kinds, runes, ns = []int{0, 1, 2, 3, 4, 5}, []int{1, 1, 2, 3, 4, 1}, []int{1, 2, 3, 4, 5}
		}
		var jobs []*Job
		for _, n := range ns {
			for i, k := range kinds {
				if runes[i] > n {
					continue
				}
				for _, pos := range []int{0, n - runes[i]} {
					jobs = append(jobs, &Job{Entry: entry + "R", Args: append([]int{pos, k, n}, tail...)})
					if n-runes[i] == 0 {
						break
					}
				}
			}
		}
		return jobs
	}
}

func stdLong(c *Ctx, entry string, limit int, tail ...int) func(gg *GenGrammar) []*Job {
	return func(gg *GenGrammar) []*Job { return longJobs(c, gg, entry, limit, tail...) }
}

func lenJobs(entry string, maxN int, extra ...int) []*Job {
	var jobs []*Job
	for n := 0; n <= maxN; n++ {
		jobs = append(jobs, &Job{Entry: entry, Args: append([]int{n}, extra...)})
	}
	return jobs
}

func stdBounds(c *Ctx, n int) {
	c.Bounds["input_length_note"] = "one rune more (N+1) on the curated shapes and the end-of-input lookahead layer (both tiers) and, in the thorough tier, on grammars with <= 3 terminal classes"
	c.Bounds["input_length"] = fmt.Sprintf("all lengths 0..%d runes; each rune any Unicode scalar value (0..0x10FFFF minus surrogates), i.e. every Go string whose decoding has that many runes", n)
	c.Bounds["long_inputs"] = "long-input layer (11 loop/recursion grammars, one of them with 260 rules): lengths 17, 255, 256, 260 (quick) and 17..1000, and 65535/65536 for grammars with a constant number of tokens (thorough); all runes a concrete filler cycle except two arbitrary runes at the ends / last two / middle positions"
	c.Bounds["raw_inputs"] = "C03/C13 only: Buffer strings that contain invalid UTF-8 (lone 0xFF, truncated sequences, an encoded surrogate, a sequence above U+10FFFF) or NUL at the first or last place, the other runes arbitrary (lengths 2 and 4 quick; 1..5 thorough); on the curated shapes and every sixth other grammar"
	c.Bounds["outside"] = "longer inputs; grammars outside the enumerated family; semantic predicates with side effects"
	c.Assumptions = append(c.Assumptions, stdAssumptions...)
}

// variant helper: Go expressions for the constructor list of the variants that built
func varList(gg *GenGrammar, vns []string, pretty map[string]string) (names, ctors string, ok []string) {
	var ns, cs []string
	for _, vn := range vns {
		if !gg.OK(vn) {
			continue
		}
		ok = append(ok, vn)
		ns = append(ns, fmt.Sprintf("%q", pretty[vn]))
		cs = append(cs, "v"+vn+".New")
	}
	return "[]string{" + strings.Join(ns, ", ") + "}", "[]func() hl.Parser{" + strings.Join(cs, ", ") + "}", ok
}

var optName = map[string]string{"d": "default", "i": "inline", "s": "switch", "is": "inline-switch", "n": "noast", "ni": "noast-inline", "ns": "noast-switch", "nis": "noast-inline-switch"}

func init() {
	gramSpecs["C01"] = func(c *Ctx) ([]*family.Grammar, *GramSpec) {
		N := maxN(c)
		stdBounds(c, N)
		c.Bounds["entry_rules"] = "every rule of each grammar (first rule via Parse(), others via Parse(rule constant))"
		return parserFamily(c, ""), &GramSpec{
			Variants: []string{"d"},
			Entries: func(gg *GenGrammar) []EntrySpec {
				return []EntrySpec{{Name: "C01", Params: "n, rule int", Body: "hl.C01(G, vd.New, n, rule, NSW)"}}
			},
			Jobs: func(gg *GenGrammar) []*Job {
				var jobs []*Job
				for r := range gg.G.G.Rules {
					jobs = append(jobs, lenJobs("C01", nFor(c, gg, N), r)...)
				}
				return jobs
			},
			LongJobs:          stdLong(c, "C01", 0, 0),
			BrokenIsViolation: true, ValidateEveryGrammar: validateEvery(c), Cfg: parserCfg(c),
		}
	}
	gramSpecs["C03"] = func(c *Ctx) ([]*family.Grammar, *GramSpec) {
		N := maxN(c)
		stdBounds(c, N)
		c.Bounds["entry_rules"] = "every rule of each grammar (first rule via Parse(), others via Parse(rule constant))"
		return parserFamily(c, ""), &GramSpec{
			Variants: []string{"d"},
			Entries: func(gg *GenGrammar) []EntrySpec {
				return []EntrySpec{{Name: "C03", Params: "n, rule int", Body: "hl.C03(G, vd.New, n, rule, NSW)"}}
			},
			Jobs: func(gg *GenGrammar) []*Job {
				// from every entry rule: Parse(rule) must leave the derivation of that rule
				var jobs []*Job
				for r := range gg.G.G.Rules {
					n := nFor(c, gg, N)
					if r > 0 {
						n = N
					}
					jobs = append(jobs, lenJobs("C03", n, r)...)
				}
				return jobs
			},
			LongJobs:          stdLong(c, "C03", 0, 0),
			RawJobs:           rawJobs(c, "C03", 0),
			BrokenIsViolation: true, ValidateEveryGrammar: validateEvery(c), Cfg: parserCfg(c),
		}
	}
	gramSpecs["C02"] = func(c *Ctx) ([]*family.Grammar, *GramSpec) {
		N := maxN(c)
		stdBounds(c, N)
		c.Bounds["option_sets"] = "-inline, -switch, -inline -switch, each against the default parser on the same symbolic input"
		return parserFamily(c, ""), &GramSpec{
			Variants: []string{"d", "i", "s", "is"},
			Entries: func(gg *GenGrammar) []EntrySpec {
				if !gg.OK("d") {
					return nil
				}
				names, ctors, ok := varList(gg, []string{"i", "s", "is"}, optName)
				if len(ok) == 0 {
					return nil
				}
				es := []EntrySpec{{Name: "C02", Params: "n int", Body: fmt.Sprintf("hl.C02(G, vd.New, %s, %s, n, NSW)", names, ctors)}}
				if gg.OK("s") && len(gg.G.G.Rules) > 1 {
					es = append(es, EntrySpec{Name: "C02Entry", Params: "n, rule int", Body: "hl.C02Entry(G, vd.New, vs.New, n, rule, NSW)"})
				}
				return es
			},
			Jobs: func(gg *GenGrammar) []*Job {
				jobs := lenJobs("C02", nFor(c, gg, N))
				for r := 1; r < len(gg.G.G.Rules); r++ {
					jobs = append(jobs, lenJobs("C02Entry", N, r)...)
				}
				return jobs
			},
			LongJobs:          stdLong(c, "C02", 1000),
			BrokenIsViolation: true, ValidateEveryGrammar: validateEvery(c), Cfg: parserCfg(c),
		}
	}
	gramSpecs["C04"] = func(c *Ctx) ([]*family.Grammar, *GramSpec) {
		N := maxN(c)
		stdBounds(c, N)
		// the action trace is checked against the reference under every option set that keeps
		// the AST (the -noast sets run their actions inline; that is C07's subject)
		c.Bounds["option_sets"] = "default, -inline, -switch, -inline -switch: each parser's Execute() trace against the reference on the same symbolic input"
		opt := []string{"i", "s", "is"}
		return parserFamily(c, "actions"), &GramSpec{
			Variants: []string{"d", "i", "s", "is"},
			Entries: func(gg *GenGrammar) []EntrySpec {
				es := []EntrySpec{{Name: "C04", Params: "n int", Body: "hl.C04(G, vd.New, n, NSW)"}}
				for _, vn := range opt {
					if gg.OK(vn) {
						es = append(es, EntrySpec{Name: "C04" + vn, Params: "n int", Body: "hl.C04(G, v" + vn + ".New, n, NSW)"})
					}
				}
				return es
			},
			Jobs: func(gg *GenGrammar) []*Job {
				jobs := lenJobs("C04", nFor(c, gg, N))
				for _, vn := range opt {
					if gg.OK(vn) {
						jobs = append(jobs, lenJobs("C04"+vn, nFor(c, gg, N))...)
					}
				}
				return jobs
			},
			LongJobs:          stdLong(c, "C04", 1000),
			BrokenIsViolation: true, ValidateEveryGrammar: validateEvery(c), Cfg: parserCfg(c),
		}
	}
	gramSpecs["C05"] = func(c *Ctx) ([]*family.Grammar, *GramSpec) {
		N := maxN(c)
		stdBounds(c, N)
		c.Assumptions = append(c.Assumptions, "A-QUOTE: strconv.Quote is modelled as an uninterpreted function of its argument (equal results iff equal arguments)")
		return parserFamily(c, ""), &GramSpec{
			Variants: []string{"d"},
			Entries: func(gg *GenGrammar) []EntrySpec {
				return []EntrySpec{{Name: "C05", Params: "n int", Body: "hl.C05(G, vd.New, strconv.Quote, n, NSW)"},
					{Name: "C05Unit", Params: "k int", Body: "hl.C05Unit(vd.ASTOf, vd.RuleName(), k)"},
					{Name: "C05Reuse", Params: "n1, n2 int", Body: "hl.C05Reuse(G, vd.New, strconv.Quote, n1, n2, NSW)"}}
			},
			Jobs: func(gg *GenGrammar) []*Job {
				jobs := lenJobs("C05", nFor(c, gg, N))
				// the tree of a reused parser: the curated shapes and every sixth other grammar
				if strings.HasPrefix(gg.G.Tag, "shape/") || gg.Idx%6 == 0 {
					for _, ns := range [][2]int{{3, 3}, {3, 2}, {2, 3}} {
						jobs = append(jobs, &Job{Entry: "C05Reuse", Args: []int{ns[0], ns[1]}})
					}
				}
				if gg.Idx == 0 {
					// the AST builder is grammar independent: one package runs the unit harness
					kmax := 4
					if !c.Quick() {
						kmax = 5
					}
					for k := 0; k <= kmax; k++ {
						jobs = append(jobs, &Job{Entry: "C05Unit", Args: []int{k}, Need: []string{"done"}})
					}
				}
				return jobs
			},
			LongJobs:          stdLong(c, "C05", 300),
			BrokenIsViolation: true, ValidateEveryGrammar: validateEvery(c), Cfg: parserCfg(c),
		}
	}
	gramSpecs["C06"] = func(c *Ctx) ([]*family.Grammar, *GramSpec) {
		N := maxN(c)
		stdBounds(c, N)
		return parserFamily(c, ""), &GramSpec{
			Variants: []string{"d"},
			Entries: func(gg *GenGrammar) []EntrySpec {
				return []EntrySpec{{Name: "C06", Params: "n int", Body: "hl.C06(G, vd.New, n, NSW)"},
					{Name: "C06Reuse", Params: "n1, n2 int", Body: "hl.C06Reuse(G, vd.New, n1, n2, NSW)"}}
			},
			Jobs: func(gg *GenGrammar) []*Job {
				jobs := lenJobs("C06", nFor(c, gg, N))
				// memo on/off on a reused parser: the curated shapes and every sixth other grammar
				if strings.HasPrefix(gg.G.Tag, "shape/") || gg.Idx%6 == 0 {
					for _, ns := range [][2]int{{3, 3}, {3, 2}, {2, 3}, {1, 3}} {
						jobs = append(jobs, &Job{Entry: "C06Reuse", Args: []int{ns[0], ns[1]}})
					}
				}
				return jobs
			},
			LongJobs:          stdLong(c, "C06", 0),
			BrokenIsViolation: true, ValidateEveryGrammar: validateEvery(c), Cfg: parserCfg(c),
		}
	}
	gramSpecs["C07"] = func(c *Ctx) ([]*family.Grammar, *GramSpec) {
		N := maxN(c)
		stdBounds(c, N)
		c.Bounds["option_sets"] = "-noast, -noast -inline, -noast -switch, -noast -inline -switch, each against the default parser and the reference"
		return parserFamily(c, ""), &GramSpec{
			Variants: []string{"d", "n", "ni", "ns", "nis"},
			Entries: func(gg *GenGrammar) []EntrySpec {
				if !gg.OK("d") {
					return nil
				}
				names, ctors, ok := varList(gg, []string{"n", "ni", "ns", "nis"}, optName)
				if len(ok) == 0 {
					return nil
				}
				var ex []string
				for _, vn := range ok {
					ex = append(ex, fmt.Sprint(vn == "n" || vn == "ni"))
				}
				return []EntrySpec{{Name: "C07", Params: "n int", Body: fmt.Sprintf("hl.C07(G, vd.New, %s, %s, []bool{%s}, n, NSW)", names, ctors, strings.Join(ex, ", "))}}
			},
			Jobs:              func(gg *GenGrammar) []*Job { return lenJobs("C07", nFor(c, gg, N)) },
			LongJobs:          stdLong(c, "C07", 1000),
			BrokenIsViolation: true, ValidateEveryGrammar: validateEvery(c), Cfg: parserCfg(c),
		}
	}
	gramSpecs["C11"] = func(c *Ctx) ([]*family.Grammar, *GramSpec) {
		N := maxN(c)
		stdBounds(c, N)
		c.Assumptions = append(c.Assumptions, "A-QUOTE: strconv.Quote is modelled as an uninterpreted function of its argument",
			"position convention: the (line, column) of offset p is that of the rune at p: line = 1 + newlines before p, column = 1 + runes since the last newline")
		// The error token and message are also checked under the seven other option sets (the
		// furthest-token bookkeeping sits in add(), which -inline and -noast emit differently):
		// for the curated shapes and every sixth (thorough: twenty-fourth) other grammar.
		c.Bounds["option_sets"] = "default on every grammar; -inline, -switch, -inline -switch on the curated shapes and on every 8th (thorough tier: every 24th) other grammar; -noast, -noast -inline, -noast -switch, -noast -inline -switch on those of them that have no <...> capture (without the AST a capture records no token, so the reference's capture tokens are not candidates for the error token there)"
		opt := []string{"i", "s", "is", "n", "ni", "ns", "nis"}
		every := 8
		if !c.Quick() {
			every = 24
		}
		optOn := func(gg *GenGrammar) bool { return strings.HasPrefix(gg.G.Tag, "shape/") || gg.Idx%every == 0 }
		return parserFamily(c, ""), &GramSpec{
			Variants: []string{"d", "i", "s", "is", "n", "ni", "ns", "nis"},
			Entries: func(gg *GenGrammar) []EntrySpec {
				es := []EntrySpec{{Name: "C11", Params: "n int", Body: "hl.C11(G, vd.New, strconv.Quote, n, NSW)"},
					{Name: "C11Reuse", Params: "n1, n2 int", Body: "hl.C11Reuse(G, vd.New, strconv.Quote, n1, n2, NSW)"}}
				if optOn(gg) {
					for _, vn := range opt {
						if gg.OK(vn) && !(variants[vn].NoAST && gg.G.HasCap) {
							es = append(es, EntrySpec{Name: "C11" + vn, Params: "n int", Body: "hl.C11(G, v" + vn + ".New, strconv.Quote, n, NSW)"})
						}
					}
				}
				return es
			},
			Jobs: func(gg *GenGrammar) []*Job {
				jobs := lenJobs("C11", nFor(c, gg, N))
				if optOn(gg) {
					for _, vn := range opt {
						if gg.OK(vn) && !(variants[vn].NoAST && gg.G.HasCap) {
							jobs = append(jobs, lenJobs("C11"+vn, nFor(c, gg, N))...)
						}
					}
				}
				if strings.HasPrefix(gg.G.Tag, "shape/") || gg.Idx%6 == 0 {
					for _, ns := range [][2]int{{3, 2}, {2, 3}, {3, 3}, {3, 0}, {3, 1}} {
						jobs = append(jobs, &Job{Entry: "C11Reuse", Args: []int{ns[0], ns[1]}})
					}
				}
				return jobs
			},
			LongJobs:          stdLong(c, "C11", 1000),
			BrokenIsViolation: true, ValidateEveryGrammar: validateEvery(c), Cfg: parserCfg(c),
		}
	}
	gramSpecs["C13"] = func(c *Ctx) ([]*family.Grammar, *GramSpec) {
		N := maxN(c)
		stdBounds(c, N)
		all := []string{"d", "i", "s", "is", "n", "ni", "ns", "nis"}
		return parserFamily(c, ""), &GramSpec{
			Variants: all,
			Entries: func(gg *GenGrammar) []EntrySpec {
				names, ctors, ok := varList(gg, all, optName)
				if len(ok) == 0 {
					return nil
				}
				var ast []string
				for _, vn := range ok {
					ast = append(ast, fmt.Sprint(!variants[vn].NoAST))
				}
				return []EntrySpec{{Name: "C13", Params: "n int", Body: fmt.Sprintf("hl.C13(G, %s, %s, []bool{%s}, HASACT, n, NSW)", names, ctors, strings.Join(ast, ", "))}}
			},
			Jobs:              func(gg *GenGrammar) []*Job { return lenJobs("C13", nFor(c, gg, N)) },
			LongJobs:          stdLong(c, "C13", 0),
			RawJobs:           rawJobs(c, "C13"),
			BrokenIsViolation: false, ValidateEveryGrammar: validateEvery(c), Cfg: parserCfg(c),
		}
	}
	checks["FAMILY"] = func(c *Ctx) error {
		for i, g := range parserFamily(c, "") {
			println(i, g.Tag, g.Hash())
			print(g.PegText("d", false)[61:])
		}
		return nil
	}
}
