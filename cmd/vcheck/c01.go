package main

import (
	"verif/family"
	"verif/symx"
)

func init() {
	checks["C01"] = checkC01
	checks["C03"] = checkC03
}

// parserFamily selects the grammar family for a parser property and tier.
func parserFamily(c *Ctx, kind string) []*family.Grammar {
	size, nTerm, nOutlineSrc := 3, 110, 25
	if !c.Quick() {
		size, nTerm, nOutlineSrc = 4, 1000, 120
	}
	var gs []*family.Grammar
	gs = append(gs, family.Shapes()...)
	basis := family.Dedup(family.Basis(size))
	if !c.Quick() {
		// all of size <= 3 plus a seeded sample of size 4
		small := family.Dedup(family.Basis(3))
		gs = append(gs, small...)
		gs = append(gs, family.Sample(basis[len(small):], 700, c.Seed)...)
	} else {
		gs = append(gs, basis...)
	}
	gs = append(gs, family.Sample(family.Dedup(family.TerminalLayer()), nTerm, c.Seed)...)
	// multi-rule variants of a seeded sample of the basis
	for _, g := range family.Sample(family.Dedup(family.Basis(3)), nOutlineSrc, c.Seed+1) {
		gs = append(gs, family.Outline(g)...)
	}
	return family.Dedup(gs)
}

func parserCfg(c *Ctx) symx.Config {
	cfg := symx.DefaultConfig()
	cfg.ValidateEvery = 50
	cfg.MaxPaths = 60000
	return cfg
}

func validateEvery(c *Ctx) int {
	if c.Quick() {
		return 8
	}
	return 4
}

func maxN(c *Ctx, g *family.Grammar) int {
	n := 4
	if !c.Quick() {
		n = 5
	}
	return n
}

func checkC01(c *Ctx) error {
	fam := parserFamily(c, "C01")
	spec := &GramSpec{
		Variants: []string{"d"},
		Entries:  []EntrySpec{{Name: "C01", Params: "n, rule int", Body: "hl.C01(G, d.New, n, rule, NSW)"}},
		Jobs: func(gg *GenGrammar) []*Job {
			var jobs []*Job
			for r := range gg.G.G.Rules {
				for n := 0; n <= maxN(c, gg.G); n++ {
					jobs = append(jobs, &Job{Entry: "C01", Args: []int{n, r}})
				}
			}
			return jobs
		},
		BrokenIsViolation: true,
		ValidateEveryGrammar: validateEvery(c),
		Cfg:               parserCfg(c),
	}
	c.Bounds["input_length"] = "all lengths 0..N runes, each rune any Unicode scalar value (0..0x10FFFF minus surrogates); N=4 quick, 5 thorough"
	c.Bounds["entry_rules"] = "every rule of each grammar (first rule via Parse(), others via Parse(rule constant))"
	c.Assumptions = append(c.Assumptions, stdAssumptions...)
	return runGrammarProperty(c, fam, spec)
}

func checkC03(c *Ctx) error {
	fam := parserFamily(c, "C03")
	spec := &GramSpec{
		Variants: []string{"d"},
		Entries:  []EntrySpec{{Name: "C03", Params: "n, rule int", Body: "hl.C03(G, d.New, n, rule, NSW)"}},
		Jobs: func(gg *GenGrammar) []*Job {
			var jobs []*Job
			for n := 0; n <= maxN(c, gg.G); n++ {
				jobs = append(jobs, &Job{Entry: "C03", Args: []int{n, 0}})
			}
			return jobs
		},
		BrokenIsViolation: true,
		ValidateEveryGrammar: validateEvery(c),
		Cfg:               parserCfg(c),
	}
	c.Bounds["input_length"] = "all lengths 0..N runes over the whole Unicode alphabet; N=4 quick, 5 thorough"
	c.Assumptions = append(c.Assumptions, stdAssumptions...)
	return runGrammarProperty(c, fam, spec)
}

var stdAssumptions = []string{
	"A-SSA: go/ssa (x/tools v0.50.0, go1.26.8) translates the generated parser faithfully",
	"A-SMT: cvc5 1.0.3 answers are correct (thorough tier cross-checks with z3)",
	"A-UTF8: Go's string<->[]rune conversion follows the language spec, so every Go string is covered by 'n valid runes' (invalid bytes decode to U+FFFD)",
	"the grammar dimension is the enumerated family (evidence.bounds.family_size/digest), not solver-quantified",
	"grammars are well-formed by an independent Ford-style analysis (precondition of the property)",
}

func init() {
	checks["FAMILY"] = func(c *Ctx) error {
		for i, g := range parserFamily(c, "C01") {
			println(i, g.Tag, g.Hash())
			print(g.PegText("d", false)[61:])
		}
		return nil
	}
}
