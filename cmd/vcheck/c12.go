package main

import (
	"fmt"

	"verif/family"
)

// smallFamily: the memo/backtracking shapes plus a seeded sample of the rest (properties whose
// harness runs several parses per path).
func smallFamily(c *Ctx, nSample int) []*family.Grammar {
	gs := append([]*family.Grammar{}, family.Long()...)
	gs = append(gs, family.Shapes()...)
	rest := family.Dedup(append(family.Basis(3), family.TerminalLayer()...))
	gs = append(gs, family.Sample(rest, nSample, c.Seed)...)
	return family.Dedup(gs)
}

func init() {
	gramSpecs["C12"] = func(c *Ctx) ([]*family.Grammar, *GramSpec) {
		N, nS := 3, 40
		sizes := []int{-1, 1, 64}
		if !c.Quick() {
			N, nS = 3, 300
		}
		stdBounds(c, N)
		c.Bounds["histories"] = "two inputs per instance (all pairs of lengths 0..3; a few pairs also with memoisation disabled), the same input twice, and (thorough) three inputs of length <= 2; Size in {unset, 1, 64}; U in {uint16, uint32, uint64, uint} x Size in {unset, 0, 1, 64}"
		c.Bounds["long_inputs"] = "long-input layer: reuse across lengths (L then 2, 2 then L, L twice; L in 17, 255, 256 quick / up to 300 thorough) and narrow instantiations at the edge of their range: uint8 at 100 runes (127, 128, 254, 255 for grammars with a constant token count), uint16 at 255, 256, 300 (thorough: 65534, 65535); two arbitrary runes per input, the rest a concrete filler"
		c.Bounds["outside"] = "histories longer than 3 inputs; inputs or token counts that do not fit U (excluded by the property); fully symbolic inputs longer than 3 runes in histories"
		return smallFamily(c, nS), &GramSpec{
			Variants: []string{"d"},
			Entries: func(gg *GenGrammar) []EntrySpec {
				var narrow []EntrySpec
				if gg.G.Filler != "" {
					// long-input layer: the narrow instantiations at lengths that only just fit them
					narrow = []EntrySpec{
						{Name: "C12U8", Params: "n int", Body: `hl.C12U(G, []func() hl.Parser{vd.New, vd.New8}, []string{"uint32", "uint8"}, HASACT, []int{-1, 1}, n, NSW)`},
						{Name: "C12U16", Params: "n int", Body: `hl.C12U(G, []func() hl.Parser{vd.New, vd.New16}, []string{"uint32", "uint16"}, HASACT, []int{-1}, n, NSW)`},
					}
				}
				return append(narrow, []EntrySpec{
					{Name: "C12", Params: "n1, n2, size int", Body: "hl.C12(G, vd.New, HASACT, size, []int{n1, n2}, false, NSW)"},
					{Name: "C12nomemo", Params: "n1, n2 int", Body: "hl.C12NoMemo(G, vd.New, HASACT, []int{n1, n2}, NSW)"},
					{Name: "C12same", Params: "n, size int", Body: "hl.C12(G, vd.New, HASACT, size, []int{n, n}, true, NSW)"},
					{Name: "C12three", Params: "n1, n2, n3, size int", Body: "hl.C12(G, vd.New, HASACT, size, []int{n1, n2, n3}, false, NSW)"},
					{Name: "C12U", Params: "n int", Body: `hl.C12U(G, []func() hl.Parser{vd.New, vd.New16, vd.New64, vd.NewU}, []string{"uint32", "uint16", "uint64", "uint"}, HASACT, []int{-1, 0, 1, 64}, n, NSW)`},
				}...)
			},
			LongJobs: func(gg *GenGrammar) []*Job {
				var jobs []*Job
				steps := func(l int) int { return 2_000_000 + 40_000*l }
				// reuse across very different lengths: long then short, short then long, long twice
				for _, lc := range longCases(c, gg.G, 300) {
					l, h1, h2 := lc[0], lc[1], lc[2]
					if h1 < 0 {
						continue
					}
					jobs = append(jobs, &Job{Entry: "C12L", Args: []int{h1, h2, l, 2, 1}, MaxSteps: steps(l)},
						&Job{Entry: "C12L", Args: []int{h1, h2, 2, l, 1}, MaxSteps: steps(l)},
						&Job{Entry: "C12sameL", Args: []int{h1, h2, l, 64}, MaxSteps: steps(l)})
				}
				// narrow instantiations at the largest lengths that fit them: the input (plus the
				// end marker's offset) and the number of tokens must fit U
				l8 := []int{100}
				l16 := []int{255, 256, 300}
				if gg.G.Flat {
					l8 = []int{127, 128, 254, 255}
					if !c.Quick() {
						l16 = append(l16, 65534, 65535)
					}
				}
				for _, l := range l8 {
					for _, hs := range [][2]int{{-1, -1}, {0, l - 1}, {l - 2, l - 1}} {
						jobs = append(jobs, &Job{Entry: "C12U8L", Args: []int{hs[0], hs[1], l}, MaxSteps: steps(l)})
					}
				}
				for _, l := range l16 {
					if l > gg.G.LongMax {
						continue
					}
					for _, hs := range [][2]int{{0, l - 1}, {l - 2, l - 1}} {
						jobs = append(jobs, &Job{Entry: "C12U16L", Args: []int{hs[0], hs[1], l}, MaxSteps: steps(l)})
					}
				}
				return jobs
			},
			Jobs: func(gg *GenGrammar) []*Job {
				var jobs []*Job
				for _, sz := range sizes {
					for n1 := 0; n1 <= N; n1++ {
						for n2 := 0; n2 <= N; n2++ {
							if c.Quick() && n1+n2 > 5 {
								continue
							}
							jobs = append(jobs, &Job{Entry: "C12", Args: []int{n1, n2, sz}})
						}
						jobs = append(jobs, &Job{Entry: "C12same", Args: []int{n1, sz}})
					}
				}
				if !c.Quick() {
					for n1 := 0; n1 <= 2; n1++ {
						for n2 := 0; n2 <= 2; n2++ {
							for n3 := 0; n3 <= 2; n3++ {
								jobs = append(jobs, &Job{Entry: "C12three", Args: []int{n1, n2, n3, 1}})
							}
						}
					}
				}
				for n := 0; n <= N+1; n++ {
					jobs = append(jobs, &Job{Entry: "C12U", Args: []int{n}})
				}
				// histories with memoisation disabled
				for _, ns := range [][2]int{{3, 3}, {3, 2}, {2, 3}, {3, 1}, {3, 0}} {
					jobs = append(jobs, &Job{Entry: "C12nomemo", Args: []int{ns[0], ns[1]}})
				}
				return jobs
			},
			BrokenIsViolation: true, ValidateEveryGrammar: validateEvery(c), Cfg: parserCfg(c),
		}
	}
	gramSpecs["C14"] = func(c *Ctx) ([]*family.Grammar, *GramSpec) {
		N, nS := 3, 20
		if !c.Quick() {
			nS = 200
		}
		stdBounds(c, N)
		// all interleavings of two instances each doing (init, parse, observe): bit strings with three 0s and three 1s
		var orders []int
		for o := 0; o < 64; o++ {
			ones := 0
			for b := 0; b < 6; b++ {
				ones += (o >> b) & 1
			}
			if ones == 3 {
				orders = append(orders, o)
			}
		}
		if c.Quick() {
			orders = []int{0b000111, 0b010101, 0b011001, 0b100110, 0b001011, 0b111000}
		}
		c.Bounds["interleavings"] = fmt.Sprintf("%d merges of two 3-call sequences (init, parse, execute+print/error) of two instances; same parser type and two different parser packages; input lengths (2,3),(3,2),(3,3)", len(orders))
		c.Bounds["outside"] = "this is a non-interference argument (disjoint write footprints => every schedule is equivalent to a sequential one), not scheduler exploration; Go runtime, fmt internals and os.Stdout are outside"
		return smallFamily(c, nS), &GramSpec{
			Variants:   []string{"d", "i", "n"},
			RaceReplay: true,
			Entries: func(gg *GenGrammar) []EntrySpec {
				es := []EntrySpec{{Name: "C14same", Params: "n1, n2, order int", Body: "hl.C14(G, vd.New, vd.New, HASACT, n1, n2, order, NSW)"}}
				es = append(es, EntrySpec{Name: "C14shared", Params: "n1, n2, order int", Body: "mk := vd.NewShared(8); hl.C14(G, mk, mk, HASACT, n1, n2, order, NSW)"})
				if gg.OK("n") {
					es = append(es, EntrySpec{Name: "C14noast", Params: "n1, n2, order int", Body: "hl.C14(G, vn.New, vn.New, HASACT, n1, n2, order, NSW)"})
				}
				if gg.OK("i") {
					es = append(es, EntrySpec{Name: "C14diff", Params: "n1, n2, order int", Body: "hl.C14(G, vd.New, vi.New, HASACT, n1, n2, order, NSW)"})
				}
				return es
			},
			Jobs: func(gg *GenGrammar) []*Job {
				var jobs []*Job
				for _, o := range orders {
					for _, ns := range [][2]int{{2, 3}, {3, 2}, {3, 3}} {
						jobs = append(jobs, &Job{Entry: "C14same", Args: []int{ns[0], ns[1], o}})
					}
					jobs = append(jobs, &Job{Entry: "C14diff", Args: []int{2, 2, o}})
					jobs = append(jobs, &Job{Entry: "C14shared", Args: []int{2, 3, o}})
					if !c.Quick() || o == orders[0] || o == orders[len(orders)-1] {
						jobs = append(jobs, &Job{Entry: "C14noast", Args: []int{3, 2, o}})
					}
				}
				return jobs
			},
			BrokenIsViolation: false, ValidateEveryGrammar: validateEvery(c), Cfg: parserCfg(c),
		}
	}
}
