package main

import (
	"fmt"
	"math/rand"
	"os"
	"path/filepath"
	"strings"

	"verif/symx"
)

// C17, shipped-grammar part: each shipped grammar is generated under -strict with the four
// -inline/-switch option sets; the four parsers must agree (verdict, token list) on every
// input of up to N runes from the first rule, and on the project's own sample inputs with two
// positions replaced by arbitrary runes ("mutations": every substitution at those positions).

const realDiffAdapter = `package PKG

// Run parses in from the first rule; tokens in neutral form.
func Run(in string) (ok bool, rules []string, b, e []int) {
	p := &NAME[uint32]{Buffer: in}
	_ = p.Init()
	if err := p.Parse(); err != nil {
		return false, nil, nil, nil
	}
	for _, t := range p.Tokens() {
		rules = append(rules, rul3s[t.pegRule])
		b = append(b, int(t.begin))
		e = append(e, int(t.end))
	}
	return true, rules, b, e
}
`

const realDiffHarness = `package PKG

import (
	"vhlib/rt"

	vd "IMPORT/d"
	vi "IMPORT/i"
	vis "IMPORT/is"
	vs "IMPORT/s"
)

const sample = SAMPLE

func same(name string, ok0 bool, r0 []string, b0, e0 []int, ok bool, r []string, b, e []int) {
	rt.Assert("verdict/"+name, ok == ok0)
	if !ok || !ok0 {
		return
	}
	eq := len(r) == len(r0)
	if eq {
		for i := range r0 {
			if r[i] != r0[i] || b[i] != b0[i] || e[i] != e0[i] {
				eq = false
				break
			}
		}
	}
	rt.Assert("tokens/"+name, eq)
}

func compare(in string) {
	ok0, r0, b0, e0 := vd.Run(in)
	rt.ObserveBool("ok", ok0)
	rt.ObserveInt("ntok", len(r0))
	{
		ok, r, b, e := vi.Run(in)
		same("inline", ok0, r0, b0, e0, ok, r, b, e)
	}
	{
		ok, r, b, e := vs.Run(in)
		same("switch", ok0, r0, b0, e0, ok, r, b, e)
	}
	{
		ok, r, b, e := vis.Run(in)
		same("inline-switch", ok0, r0, b0, e0, ok, r, b, e)
	}
	rt.Reach("done")
}

// Short: every input of n runes.
func Short(n int) { compare(rt.SymString("in", n)) }

// Mut: the sample input with the runes at positions p1 and p2 replaced by arbitrary runes.
func Mut(p1, p2 int) {
	rs := []rune(sample)
	h := []rune(rt.SymString("m", 2))
	rs[p1] = h[0]
	rs[p2] = h[1]
	compare(string(rs))
}
`

var realDiffGrammars = []struct {
	file   string
	n      int
	sample func(repo string) string
	quick  bool
}{
	{"grammars/calculator/calculator.peg", 3, func(string) string { return "( 1 - -3 ) / 3 + 2 * ( 3 + -4 ) + 3 % 2^2" }, true},
	{"grammars/fexl/fexl.peg", 3, func(string) string { return "# c\n\\halt == (\\_ halt)\n\\x = (f \"a\" 12)\nsay x;\n" }, true},
	{"grammars/longtest/long.peg", 4, func(string) string { return "\"XXXXXXXX\"" }, true},
	{"grammars/c/c.peg", 2, func(string) string {
		return "int a() {\n\t(es);\n\t1++;\n\ta+1;\n\ta->x;\n\tif (a) { return (a); }\n\treturn 0;\n}\n"
	}, false},
	{"grammars/java/java_1_7.peg", 2, func(string) string {
		return "public class HelloWorld {\n\tpublic static void main(String[] args) {\n\t\tSystem.out.println(\"Hello, World\");\n\t}\n}\n"
	}, false},
}

func runRealDiff(c *Ctx) error {
	ws := c.WS
	if ws.PegBin == "" {
		if err := ws.BuildPeg(); err != nil {
			return err
		}
	}
	rng := rand.New(rand.NewSource(c.Seed))
	var patterns []string
	var jobs []*Job
	for gi, g := range realDiffGrammars {
		if c.Quick() && !g.quick {
			continue
		}
		text, err := os.ReadFile(filepath.Join(ws.Repo, g.file))
		if err != nil {
			c.inconclusive("shipped grammar %s missing", g.file)
			continue
		}
		m := typeRe.FindSubmatch(text)
		if m == nil {
			continue
		}
		base := fmt.Sprintf("zzdiff/g%d", gi)
		okAll := true
		for _, vn := range []string{"d", "i", "s", "is"} {
			dir := filepath.Join(ws.Repo, base, vn)
			os.MkdirAll(dir, 0o755)
			src := pkgRe.ReplaceAllString(string(text), "package "+vn)
			os.WriteFile(filepath.Join(dir, "g.peg"), []byte(src), 0o644)
			args := append(append([]string{"-strict"}, variants[vn].Flags...), "-output", "g.peg.go", "g.peg")
			if out, err := run(dir, ws.PegBin, args...); err != nil {
				okAll = false
				c.Findings = append(c.Findings, &Finding{Property: c.Prop, Tier: c.Tier, Seed: c.Seed, Label: "shipped:" + g.file, Entry: "generate", Kind: "build",
					AssertID: "shipped-grammar-generates-under-strict/" + optName[vn], Msg: trunc(out, 400), Confirmed: true})
				continue
			}
			ad := strings.ReplaceAll(strings.Replace(realDiffAdapter, "PKG", vn, 1), "NAME", string(m[1]))
			os.WriteFile(filepath.Join(dir, "adapter.go"), []byte(ad), 0o644)
			copySiblings(filepath.Join(ws.Repo, g.file), dir, vn)
		}
		if !okAll {
			continue
		}
		sample := g.sample(ws.Repo)
		hdir := filepath.Join(ws.Repo, base, "h")
		os.MkdirAll(hdir, 0o755)
		h := strings.Replace(realDiffHarness, "PKG", "h", 1)
		h = strings.ReplaceAll(h, "IMPORT", pegPkg+"/"+base)
		h = strings.Replace(h, "SAMPLE", fmt.Sprintf("%q", sample), 1)
		os.WriteFile(filepath.Join(hdir, "h.go"), []byte(h), 0o644)
		patterns = append(patterns, "./"+base+"/h")
		pkg := pegPkg + "/" + base + "/h"
		label := "shipped:" + g.file
		for n := 0; n <= g.n; n++ {
			jobs = append(jobs, &Job{PkgPath: pkg, Entry: "Short", Args: []int{n}, Label: label, NoSamples: n < g.n})
		}
		nr := len([]rune(sample))
		pairs := 4
		if !c.Quick() {
			pairs = 12
		}
		for k := 0; k < pairs; k++ {
			p1 := rng.Intn(nr)
			p2 := rng.Intn(nr)
			if p1 == p2 {
				p2 = (p2 + 1) % nr
			}
			jobs = append(jobs, &Job{PkgPath: pkg, Entry: "Mut", Args: []int{p1, p2}, Label: label})
		}
	}
	l, err := LoadSSA(ws.Repo, patterns...)
	if err != nil {
		return err
	}
	for p, msg := range l.Bad {
		c.inconclusive("shipped-grammar package %s does not load: %s", p, trunc(msg, 300))
	}
	c.LoadTime += l.LoadTime
	cfg := symx.DefaultConfig()
	cfg.ValidateEvery = 300
	cfg.MaxPaths = 200000
	cfg.MaxSteps = 400_000_000
	runners := map[string]*NativeRunner{}
	for _, j := range jobs {
		if runners[j.PkgPath] == nil {
			runners[j.PkgPath] = &NativeRunner{Dir: ws.Repo, PkgPath: j.PkgPath, Entries: []string{"Short", "Mut"}}
		}
	}
	res := RunJobs(l, jobs, c.Workers, cfg, c.Deadline)
	c.Bounds["shipped_grammars"] = "calculator, fexl, longtest (quick); + c, java (thorough): four option sets under -strict; all inputs of <= N runes (N = 2..4) from the first rule; sample inputs with two seeded positions replaced by arbitrary runes (4 position pairs quick, 12 thorough)"
	c.Process(res, func(j *Job) *NativeRunner { return runners[j.PkgPath] })
	return nil
}
