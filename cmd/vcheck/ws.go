package main

import (
	"fmt"
	"os"
	"os/exec"
	"path/filepath"
	"strings"
	"time"

	"golang.org/x/tools/go/packages"
	"golang.org/x/tools/go/ssa"
	"golang.org/x/tools/go/ssa/ssautil"
)

const goRoot = "/opt/veriftools/go1.26.8"

var (
	verifRoot = envOr("VERIF_ROOT", "/verif")
	repoRoot  = envOr("VERIF_REPO", "/repo")
)

func envOr(k, d string) string {
	if v := os.Getenv(k); v != "" {
		return v
	}
	return d
}

// goEnv is the environment for every go command we run (offline, go1.26.8 toolchain).
func goEnv() []string {
	env := []string{}
	for _, kv := range os.Environ() {
		if strings.HasPrefix(kv, "PATH=") || strings.HasPrefix(kv, "GOFLAGS=") || strings.HasPrefix(kv, "GOPROXY=") ||
			strings.HasPrefix(kv, "GOTOOLCHAIN=") || strings.HasPrefix(kv, "GOSUMDB=") || strings.HasPrefix(kv, "GOWORK=") {
			continue
		}
		env = append(env, kv)
	}
	return append(env, "PATH="+os.Getenv("PATH"), "GOFLAGS=-mod=mod", "GOPROXY=off",
		"GOTOOLCHAIN=local", "GOWORK=off")
}

// Workspace is the scratch area of one check run (outside /repo and /verif; removed on exit).
type Workspace struct {
	Dir    string // root
	Repo   string // copy of /repo's working tree (+ harness files)
	HX     string // harness module
	PegBin string
	keep   bool
}

func run(dir string, name string, args ...string) (string, error) {
	cmd := exec.Command(name, args...)
	cmd.Dir = dir
	cmd.Env = goEnv()
	out, err := cmd.CombinedOutput()
	return string(out), err
}

func NewWorkspace(keep bool) (*Workspace, error) {
	dir, err := os.MkdirTemp("", "vcheck-")
	if err != nil {
		return nil, err
	}
	w := &Workspace{Dir: dir, Repo: filepath.Join(dir, "repo"), HX: filepath.Join(dir, "hx"), keep: keep}
	if err := privateGoCache(dir); err != nil {
		os.RemoveAll(dir)
		return nil, err
	}
	if out, err := run("/", "rsync", "-a", "--exclude", ".git", repoRoot+"/", w.Repo+"/"); err != nil {
		return nil, fmt.Errorf("copy repo: %v: %s", err, out)
	}
	// the repo copy may import vhlib (in-package harness files are added per property)
	gm, err := os.ReadFile(filepath.Join(w.Repo, "go.mod"))
	if err != nil {
		return nil, err
	}
	gm = append(gm, []byte("\nrequire vhlib v0.0.0\n\nreplace vhlib => "+verifRoot+"/vhlib\n")...)
	if err := os.WriteFile(filepath.Join(w.Repo, "go.mod"), gm, 0o644); err != nil {
		return nil, err
	}
	os.MkdirAll(w.HX, 0o755)
	hxmod := "module hx\n\ngo 1.25\n\nrequire (\n\tgithub.com/pointlander/peg v0.0.0\n\tvhlib v0.0.0\n)\n\n" +
		"replace github.com/pointlander/peg => " + w.Repo + "\n\nreplace vhlib => " + verifRoot + "/vhlib\n"
	if err := os.WriteFile(filepath.Join(w.HX, "go.mod"), []byte(hxmod), 0o644); err != nil {
		return nil, err
	}
	return w, nil
}

func (w *Workspace) Close() {
	if w.keep {
		fmt.Fprintln(os.Stderr, "workspace kept at", w.Dir)
		return
	}
	os.RemoveAll(w.Dir)
}

// BuildPeg builds the real CLI from the working-tree copy.
func (w *Workspace) BuildPeg() error {
	w.PegBin = filepath.Join(w.Dir, "peg")
	out, err := run(w.Repo, "go", "build", "-o", w.PegBin, ".")
	if err != nil {
		return fmt.Errorf("building peg from the working tree failed: %v\n%s", err, out)
	}
	return nil
}

// CopyHarness copies /verif/harness/<name>/*.go into <dstDir>.
func (w *Workspace) CopyHarness(name, dstDir string) error {
	src := filepath.Join(verifRoot, "harness", name)
	ents, err := os.ReadDir(src)
	if err != nil {
		return err
	}
	os.MkdirAll(dstDir, 0o755)
	for _, e := range ents {
		if e.IsDir() {
			continue
		}
		data, err := os.ReadFile(filepath.Join(src, e.Name()))
		if err != nil {
			return err
		}
		dst := e.Name()
		dst = strings.TrimSuffix(dst, ".txt")
		if err := os.WriteFile(filepath.Join(dstDir, dst), data, 0o644); err != nil {
			return err
		}
	}
	return nil
}

// Loaded is an SSA program with its packages.
type Loaded struct {
	Prog     *ssa.Program
	Pkgs     map[string]*ssa.Package // by import path
	Bad      map[string]string       // packages with load/type errors (not in Pkgs)
	LoadTime time.Duration
}

// LoadSSA loads packages (with dependencies) from dir and builds SSA with generics instantiated.
func LoadSSA(dir string, patterns ...string) (*Loaded, error) {
	t0 := time.Now()
	cfg := &packages.Config{Mode: packages.LoadAllSyntax, Dir: dir, Env: goEnv()}
	pkgs, err := packages.Load(cfg, patterns...)
	if err != nil {
		return nil, err
	}
	bad := map[string]string{}
	packages.Visit(pkgs, nil, func(p *packages.Package) {
		if len(p.Errors) > 0 {
			var msgs []string
			for i, e := range p.Errors {
				if i < 3 {
					msgs = append(msgs, e.Error())
				}
			}
			bad[p.PkgPath] = strings.Join(msgs, "; ")
		}
	})
	prog, spkgs := ssautil.AllPackages(pkgs, ssa.InstantiateGenerics)
	prog.Build()
	l := &Loaded{Prog: prog, Pkgs: map[string]*ssa.Package{}, Bad: bad}
	for _, p := range spkgs {
		if p != nil {
			l.Pkgs[p.Pkg.Path()] = p
		}
	}
	for _, p := range prog.AllPackages() {
		if _, ok := l.Pkgs[p.Pkg.Path()]; !ok {
			l.Pkgs[p.Pkg.Path()] = p
		}
	}
	for path := range bad {
		delete(l.Pkgs, path)
	}
	l.LoadTime = time.Since(t0)
	return l, nil
}

// FirstBad returns an error describing the load/type errors, if any.
func (l *Loaded) FirstBad() error {
	if len(l.Bad) == 0 {
		return nil
	}
	var msgs []string
	for p, m := range l.Bad {
		msgs = append(msgs, p+": "+m)
		if len(msgs) >= 6 {
			break
		}
	}
	return fmt.Errorf("package load/type errors:\n  %s", strings.Join(msgs, "\n  "))
}
