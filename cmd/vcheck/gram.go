package main

import (
	"fmt"
	"os"
	"path/filepath"
	"sort"
	"strings"
	"sync"
	"time"

	"verif/family"
	"verif/symx"
)

// Variant is an option set of the generator.
type Variant struct {
	Name  string
	Flags []string
	NoAST bool
}

var variants = map[string]Variant{
	"d":   {Name: "d"},
	"i":   {Name: "i", Flags: []string{"-inline"}},
	"s":   {Name: "s", Flags: []string{"-switch"}},
	"is":  {Name: "is", Flags: []string{"-inline", "-switch"}},
	"n":   {Name: "n", Flags: []string{"-noast"}, NoAST: true},
	"ni":  {Name: "ni", Flags: []string{"-noast", "-inline"}, NoAST: true},
	"ns":  {Name: "ns", Flags: []string{"-noast", "-switch"}, NoAST: true},
	"nis": {Name: "nis", Flags: []string{"-noast", "-inline", "-switch"}, NoAST: true},
}

func (v Variant) FlagString() string {
	if len(v.Flags) == 0 {
		return "(default options)"
	}
	return strings.Join(v.Flags, " ")
}

// GenGrammar is one family member generated into the scratch module.
type GenGrammar struct {
	Idx    int
	G      *family.Grammar
	Dir    string            // vw/gNNNN
	Pkg    string            // vwork/gNNNN
	Broken map[string]string // variant -> generator/compile message
	PegErr map[string]string // variant -> stderr of peg (warnings)
}

const adapterAST = `package PKG

import (
	"vhlib/hl"
	"vhlib/ref"
	"vhlib/rt"
)

type ad[U Uint] struct {
	p      *T[U]
	err    error
	shared []func(*T[U]) error
}

func New() hl.Parser   { return &ad[uint32]{} }

// NewShared returns a constructor whose instances are all initialised with the SAME option
// values (built once), the way a worker pool would reuse an option slice.
func NewShared(size int) func() hl.Parser {
	opts := []func(*T[uint32]) error{Size[uint32](size)}
	return func() hl.Parser { return &ad[uint32]{shared: opts} }
}
func New8() hl.Parser  { return &ad[uint8]{} }
func New16() hl.Parser { return &ad[uint16]{} }
func New64() hl.Parser { return &ad[uint64]{} }
func NewU() hl.Parser  { return &ad[uint]{} }

func (a *ad[U]) Init(buf string, memo bool, size int) {
	a.p = &T[U]{Buffer: buf}
	var opts []func(*T[U]) error
	if !memo {
		opts = append(opts, DisableMemoize[U]())
	}
	if size >= 0 {
		opts = append(opts, Size[U](size))
	}
	opts = append(opts, a.shared...)
	a.err = a.p.Init(opts...)
}

func (a *ad[U]) SetSw(i int, v bool) { a.p.Sw[i] = v }

func (a *ad[U]) Reset(buf string) {
	a.p.Buffer = buf
	a.p.Tr = nil
	a.p.Reset()
}

func (a *ad[U]) Parse(rule int) bool {
	if rule < 0 {
		a.err = a.p.Parse()
	} else {
		a.err = a.p.Parse(rule)
	}
	return a.err == nil
}

func (a *ad[U]) RuleIndex(name string) int {
	for i, n := range rul3s {
		if n == name {
			return i
		}
	}
	return -1
}

func (a *ad[U]) Tokens() []ref.Tok {
	ts := a.p.Tokens()
	out := make([]ref.Tok, len(ts))
	for i, t := range ts {
		out[i] = ref.Tok{Rule: rul3s[t.pegRule], B: int(t.begin), E: int(t.end)}
	}
	return out
}

func (a *ad[U]) MaxTok() ref.Tok {
	pe := a.err.(*parseError[U])
	t := pe.maxToken
	return ref.Tok{Rule: rul3s[t.pegRule], B: int(t.begin), E: int(t.end)}
}

func (a *ad[U]) ErrMsg() string { return a.err.Error() }

func (a *ad[U]) Execute() []ref.Ev {
	EXECUTE
	return a.p.Tr
}

func (a *ad[U]) Trace() []ref.Ev { return a.p.Tr }

func conv[U Uint](n *node[U]) []*ref.Node {
	var out []*ref.Node
	for ; n != nil; n = n.next {
		out = append(out, &ref.Node{Rule: rul3s[n.pegRule], B: int(n.begin), E: int(n.end), Kids: conv(n.up)})
	}
	return out
}

func (a *ad[U]) Tree() []*ref.Node { return conv(a.p.AST()) }

// ASTOf runs the real AST() on a token list given in neutral form (rule 1 for every token).
func ASTOf(b, e []int) []*ref.Node {
	var ts tokens[uint32]
	for i := range b {
		ts.tree = append(ts.tree, token[uint32]{pegRule: 1, begin: uint32(b[i]), end: uint32(e[i])})
	}
	return conv(ts.AST())
}

// RuleName is the name of rule constant 1.
func RuleName() string { return rul3s[1] }
func (a *ad[U]) Sprint() string    { return a.p.SprintSyntaxTree() }
func (a *ad[U]) PrintOut(pretty bool) string {
	a.p.Pretty = pretty
	defer func() { a.p.Pretty = false }()
	return rt.CaptureStdout(func() { a.p.PrintSyntaxTree() })
}
func (a *ad[U]) BufferLen() int    { return len(a.p.buffer) }
`

const adapterNoAST = `package PKG

import (
	"vhlib/hl"
	"vhlib/ref"
)

type ad[U Uint] struct {
	p   *T[U]
	err error
}

func New() hl.Parser { return &ad[uint32]{} }

func (a *ad[U]) Init(buf string, memo bool, size int) {
	a.p = &T[U]{Buffer: buf}
	a.err = a.p.Init()
}
func (a *ad[U]) SetSw(i int, v bool) { a.p.Sw[i] = v }
func (a *ad[U]) Reset(buf string) {
	a.p.Buffer = buf
	a.p.Tr = nil
	a.p.Reset()
}
func (a *ad[U]) Parse(rule int) bool {
	if rule < 0 {
		a.err = a.p.Parse()
	} else {
		a.err = a.p.Parse(rule)
	}
	return a.err == nil
}
func (a *ad[U]) RuleIndex(name string) int {
	for i, n := range rul3s {
		if n == name {
			return i
		}
	}
	return -1
}
func (a *ad[U]) Tokens() []ref.Tok { return nil }
func (a *ad[U]) MaxTok() ref.Tok {
	pe := a.err.(*parseError[U])
	t := pe.maxToken
	return ref.Tok{Rule: rul3s[t.pegRule], B: int(t.begin), E: int(t.end)}
}
func (a *ad[U]) ErrMsg() string      { return a.err.Error() }
func (a *ad[U]) Execute() []ref.Ev   { return a.p.Tr }
func (a *ad[U]) Trace() []ref.Ev     { return a.p.Tr }
func (a *ad[U]) Tree() []*ref.Node   { return nil }
func (a *ad[U]) Sprint() string      { return "" }
func (a *ad[U]) PrintOut(bool) string { return "" }
func (a *ad[U]) BufferLen() int      { return len(a.p.buffer) }
`

// EntrySpec describes one harness entry of a grammar property.
type EntrySpec struct {
	Name   string
	Body   string // Go statement(s) inside `func Name(ARGS int...)`; may use G, NSW and variant package aliases
	Params string // e.g. "n, rule int"
}

// GramSpec describes how a grammar property is run.
type GramSpec struct {
	Variants []string
	Entries  func(gg *GenGrammar) []EntrySpec
	// Jobs lists the (entry, args, needed witnesses) to explore for a grammar.
	Jobs func(g *GenGrammar) []*Job
	// LongJobs lists the jobs for a grammar of the long-input layer (family.Long). Entries are
	// those of Entries with the suffix "L" and two leading hole-position parameters.
	LongJobs func(g *GenGrammar) []*Job
	// RawJobs lists extra jobs on inputs that contain invalid UTF-8 at one place. Entries are
	// those of Entries with the suffix "R" and two leading parameters (position, kind).
	RawJobs func(g *GenGrammar) []*Job
	// BrokenIsViolation: a variant that does not generate/compile violates the property.
	BrokenIsViolation    bool
	RaceReplay           bool // build the native replay drivers with the race detector
	ValidateEveryGrammar int  // validate sampled paths natively for every k-th grammar
	Cfg                  symx.Config
}

// entriesFor / jobsFor: for grammars of the long-input layer every entry gets a twin that
// switches the harness library to long inputs (concrete filler, two arbitrary runes) first.
func (spec *GramSpec) entriesFor(gg *GenGrammar) []EntrySpec {
	es := spec.Entries(gg)
	if gg.G.Filler == "" {
		if spec.RawJobs != nil {
			for _, e := range es[:len(es):len(es)] {
				es = append(es, EntrySpec{Name: e.Name + "R", Params: "rpos, rkind int, " + e.Params,
					Body: "hl.SetRaw(rpos, rkind)\n\tdefer hl.ClearRaw()\n\t" + e.Body})
			}
		}
		return es
	}
	var out []EntrySpec
	for _, e := range es {
		out = append(out, EntrySpec{Name: e.Name + "L", Params: "h1, h2 int, " + e.Params,
			Body: fmt.Sprintf("hl.SetLong(%q, h1, h2)\n\tdefer hl.ClearLong()\n\t%s", gg.G.Filler, e.Body)})
	}
	return out
}

func (spec *GramSpec) jobsFor(gg *GenGrammar) []*Job {
	if gg.G.Filler == "" {
		jobs := spec.Jobs(gg)
		if spec.RawJobs != nil {
			jobs = append(jobs, spec.RawJobs(gg)...)
		}
		return jobs
	}
	if spec.LongJobs == nil {
		return nil
	}
	return spec.LongJobs(gg)
}

func (ws *Workspace) vwDir() string { return filepath.Join(ws.Dir, "vw") }

func (ws *Workspace) initVW() error {
	os.MkdirAll(ws.vwDir(), 0o755)
	mod := "module vwork\n\ngo 1.25\n\nrequire vhlib v0.0.0\n\nreplace vhlib => " + verifRoot + "/vhlib\n"
	return os.WriteFile(filepath.Join(ws.vwDir(), "go.mod"), []byte(mod), 0o644)
}

// generate writes one grammar's variant packages, adapters and harness package.
func (ws *Workspace) generate(idx int, g *family.Grammar, spec *GramSpec) *GenGrammar {
	gg := &GenGrammar{Idx: idx, G: g, Dir: filepath.Join(ws.vwDir(), fmt.Sprintf("g%04d", idx)), Pkg: fmt.Sprintf("vwork/g%04d", idx),
		Broken: map[string]string{}, PegErr: map[string]string{}}
	for _, vn := range spec.Variants {
		v := variants[vn]
		dir := filepath.Join(gg.Dir, vn)
		os.MkdirAll(dir, 0o755)
		text := g.PegText(vn, v.NoAST)
		os.WriteFile(filepath.Join(dir, "g.peg"), []byte(text), 0o644)
		args := append(append([]string{}, v.Flags...), "-output", "g.peg.go", "g.peg")
		out, err := run(dir, ws.PegBin, args...)
		if strings.TrimSpace(out) != "" {
			gg.PegErr[vn] = strings.TrimSpace(out)
		}
		st, serr := os.Stat(filepath.Join(dir, "g.peg.go"))
		if err != nil || serr != nil || st.Size() == 0 || strings.Contains(out, "warning:") || strings.Contains(out, "error") {
			gg.Broken[vn] = fmt.Sprintf("peg %s failed or warned: %v %s", v.FlagString(), err, trunc(out, 300))
			os.Remove(filepath.Join(dir, "g.peg.go"))
			continue
		}
		ad := adapterAST
		if v.NoAST {
			ad = adapterNoAST
		}
		ad = strings.Replace(ad, "PKG", vn, 1)
		if g.NAct > 0 {
			ad = strings.Replace(ad, "EXECUTE", "a.p.Execute()", 1)
		} else {
			ad = strings.Replace(ad, "EXECUTE", "", 1)
		}
		os.WriteFile(filepath.Join(dir, "adapter.go"), []byte(ad), 0o644)
	}
	return gg
}

// writeHarness writes the harness package h for the variants that built.
func (gg *GenGrammar) writeHarness(spec *GramSpec) error {
	dir := filepath.Join(gg.Dir, "h")
	os.MkdirAll(dir, 0o755)
	var b strings.Builder
	b.WriteString("package h\n\nimport (\n\t\"strconv\"\n\n\t\"vhlib/hl\"\n\t\"vhlib/ref\"\n")
	for _, vn := range spec.Variants {
		if _, bad := gg.Broken[vn]; bad {
			continue
		}
		fmt.Fprintf(&b, "\tv%s %q\n", vn, gg.Pkg+"/"+vn)
	}
	b.WriteString(")\n\nvar _ = hl.NSw\nvar _ = strconv.Quote\n\n")
	for _, vn := range spec.Variants {
		if _, bad := gg.Broken[vn]; !bad {
			fmt.Fprintf(&b, "var _ = v%s.New\n", vn) // not every grammar has an entry for every variant
		}
	}
	fmt.Fprintf(&b, "// grammar %s (%s)\n", gg.G.Hash(), gg.G.Tag)
	for _, line := range strings.Split(strings.TrimSpace(gg.G.PegText("x", false)), "\n") {
		b.WriteString("// " + line + "\n")
	}
	fmt.Fprintf(&b, "var G = %s\n\nconst NSW = %d\nconst HASACT = %v\n\nvar _ *ref.Grammar = G\n\n", gg.G.GoLiteral(), gg.G.NSw, gg.G.NAct > 0)
	for _, e := range spec.entriesFor(gg) {
		fmt.Fprintf(&b, "func %s(%s) {\n\t%s\n}\n\n", e.Name, e.Params, e.Body)
	}
	return os.WriteFile(filepath.Join(dir, "h.go"), []byte(b.String()), 0o644)
}

func (gg *GenGrammar) Label() string {
	return fmt.Sprintf("g%04d:%s:%s", gg.Idx, gg.G.Hash(), gg.G.Tag)
}

func (gg *GenGrammar) Meta() map[string]any {
	return map[string]any{"grammar": gg.G.PegText("d", false), "tag": gg.G.Tag, "hash": gg.G.Hash()}
}

// runGrammarProperty generates the family, explores it in batches and processes the results.
func runGrammarProperty(c *Ctx, fam []*family.Grammar, spec *GramSpec) error {
	ws := c.WS
	if lim := os.Getenv("VERIF_FAMILY_LIMIT"); lim != "" {
		var n int
		fmt.Sscan(lim, &n)
		if n < len(fam) {
			fam = fam[:n]
		}
	}
	if err := ws.BuildPeg(); err != nil {
		return err
	}
	if err := ws.initVW(); err != nil {
		return err
	}
	t0 := time.Now()
	gens := make([]*GenGrammar, len(fam))
	var wg sync.WaitGroup
	sem := make(chan struct{}, 16)
	for i, g := range fam {
		wg.Add(1)
		sem <- struct{}{}
		go func(i int, g *family.Grammar) {
			defer wg.Done()
			defer func() { <-sem }()
			gens[i] = ws.generate(i, g, spec)
			gens[i].writeHarness(spec)
		}(i, g)
	}
	wg.Wait()
	genTime := time.Since(t0)
	c.Programs = len(fam)
	hashes := make([]string, 0, len(fam))
	for _, g := range gens {
		hashes = append(hashes, g.G.Hash())
	}
	sort.Strings(hashes)
	c.Bounds["family_size"] = len(fam)
	c.Bounds["family_digest"] = family.Digest(hashes)
	c.Bounds["variants"] = spec.Variants
	c.Notes = append(c.Notes, fmt.Sprintf("generated %d grammars x %d option sets with the peg built from the working tree in %.1fs", len(fam), len(spec.Variants), genTime.Seconds()))
	// broken variants
	for _, gg := range gens {
		for vn, msg := range gg.Broken {
			f := &Finding{Property: c.Prop, Tier: c.Tier, Seed: c.Seed, Label: gg.Label(), Entry: "generate", PkgPath: gg.Pkg + "/" + vn, Kind: "build",
				AssertID: "generates-and-compiles/" + vn, Msg: msg, Meta: gg.Meta(), Confirmed: true}
			if spec.BrokenIsViolation {
				c.Findings = append(c.Findings, f)
			} else {
				c.inconclusive("%s: variant %s does not generate: %s", gg.Label(), vn, msg)
			}
		}
	}
	batch := 48
	for start := 0; start < len(gens); start += batch {
		end := min(start+batch, len(gens))
		if time.Now().After(c.Deadline) {
			c.inconclusive("deadline reached before grammars %d..%d were explored", start, len(gens)-1)
			break
		}
		var patterns []string
		for _, gg := range gens[start:end] {
			patterns = append(patterns, "./"+filepath.Base(gg.Dir)+"/h")
		}
		l, err := LoadSSA(ws.vwDir(), patterns...)
		if err != nil {
			return err
		}
		if len(l.Bad) > 0 {
			// variants that do not type-check: record them, rewrite the affected harnesses
			// without them and load the batch again
			for _, gg := range gens[start:end] {
				hit := false
				for _, vn := range spec.Variants {
					if msg, bad := l.Bad[gg.Pkg+"/"+vn]; bad {
						if _, known := gg.Broken[vn]; known {
							continue
						}
						hit = true
						gg.Broken[vn] = "generated file does not compile: " + trunc(msg, 400)
						f := &Finding{Property: c.Prop, Tier: c.Tier, Seed: c.Seed, Label: gg.Label(), Entry: "generate", PkgPath: gg.Pkg + "/" + vn, Kind: "build",
							AssertID: "generates-and-compiles/" + vn, Msg: gg.Broken[vn], Meta: gg.Meta(), Confirmed: true}
						if spec.BrokenIsViolation {
							c.Findings = append(c.Findings, f)
						} else {
							c.inconclusive("%s: variant %s does not compile: %s", gg.Label(), vn, trunc(msg, 300))
						}
					}
				}
				if hit {
					gg.writeHarness(spec)
				} else if msg, bad := l.Bad[gg.Pkg+"/h"]; bad {
					c.inconclusive("%s: harness package does not load: %s", gg.Label(), trunc(msg, 400))
				}
			}
			c.LoadTime += l.LoadTime
			l, err = LoadSSA(ws.vwDir(), patterns...)
			if err != nil {
				return err
			}
		}
		c.LoadTime += l.LoadTime
		var jobs []*Job
		runners := map[string]*NativeRunner{}
		for _, gg := range gens[start:end] {
			if l.Pkgs[gg.Pkg+"/h"] == nil {
				continue
			}
			var entries []string
			hp := l.Pkgs[gg.Pkg+"/h"]
			for _, e := range spec.entriesFor(gg) {
				if hp.Func(e.Name) != nil {
					entries = append(entries, e.Name)
				}
			}
			runners[gg.Pkg+"/h"] = &NativeRunner{Dir: ws.vwDir(), PkgPath: gg.Pkg + "/h", Entries: entries, Race: spec.RaceReplay}
			for _, j := range spec.jobsFor(gg) {
				if hp.Func(j.Entry) == nil {
					continue
				}
				j.PkgPath = gg.Pkg + "/h"
				j.Label = gg.Label()
				j.Meta = gg.Meta()
				if k := spec.ValidateEveryGrammar; k > 1 && (gg.Idx+int(c.Seed))%k != 0 {
					j.NoSamples = true
				}
				jobs = append(jobs, j)
			}
		}
		cfg := spec.Cfg
		te := time.Now()
		res := RunJobs(l, jobs, c.Workers, cfg, c.Deadline)
		c.ExploreTime += time.Since(te)
		c.Process(res, func(j *Job) *NativeRunner { return runners[j.PkgPath] })
	}
	return nil
}

// OK reports whether variant vn generated and compiled.
func (gg *GenGrammar) OK(vn string) bool {
	_, bad := gg.Broken[vn]
	return !bad
}

// gramSpecs maps a generated-parser property to its family and harness specification.
var gramSpecs = map[string]func(c *Ctx) ([]*family.Grammar, *GramSpec){}

func registerGramChecks() {
	for prop, mk := range gramSpecs {
		prop, mk := prop, mk
		checks[prop] = func(c *Ctx) error {
			fam, spec := mk(c)
			if err := runGrammarProperty(c, fam, spec); err != nil {
				return err
			}
			if prop == "C13" && !c.Quick() {
				return runReal(c)
			}
			return nil
		}
		replayers[prop] = func(ws *Workspace, f *Finding) (*ReplayOutcome, error) { return replayGrammar(ws, prop, mk, f) }
	}
}

// replayGrammar regenerates the grammar of a recorded finding with the peg built from the
// current working tree and runs the recorded case natively.
func replayGrammar(ws *Workspace, prop string, mk func(c *Ctx) ([]*family.Grammar, *GramSpec), f *Finding) (*ReplayOutcome, error) {
	hash, _ := f.Meta["hash"].(string)
	var g *family.Grammar
	var spec *GramSpec
	for _, tier := range []string{f.Tier, "quick", "thorough"} {
		if tier == "" {
			continue
		}
		c := &Ctx{Prop: prop, Tier: tier, Seed: f.Seed, WS: ws, Bounds: map[string]any{}}
		fam, sp := mk(c)
		for _, cand := range fam {
			if cand.Hash() == hash {
				g, spec = cand, sp
				break
			}
		}
		if g != nil {
			break
		}
	}
	if g == nil {
		return nil, fmt.Errorf("grammar %s not found in the %s family (tier %q seed %d)", hash, prop, f.Tier, f.Seed)
	}
	if err := ws.BuildPeg(); err != nil {
		return nil, err
	}
	if err := ws.initVW(); err != nil {
		return nil, err
	}
	gg := ws.generate(0, g, spec)
	o := &ReplayOutcome{Entry: f.Entry}
	if f.Kind == "build" {
		vn := strings.TrimPrefix(f.AssertID, "generates-and-compiles/")
		if msg, bad := gg.Broken[vn]; bad {
			o.Failed = append(o.Failed, f.AssertID)
			o.Panic = msg
			return o, nil
		}
		out, err := run(ws.vwDir(), "go", "build", "./"+filepath.Base(gg.Dir)+"/"+vn)
		if err != nil {
			o.Failed = append(o.Failed, f.AssertID)
			o.Panic = trunc(out, 400)
		}
		return o, nil
	}
	gg.writeHarness(spec)
	var entries []string
	for _, e := range spec.entriesFor(gg) {
		entries = append(entries, e.Name)
	}
	return replayInPkg(ws.vwDir(), gg.Pkg+"/h", entries, f)
}
