package main

import (
	"fmt"
	"os"
	"os/exec"
	"path/filepath"
	"time"
)

// Every run compiles hundreds to thousands of generated parser packages for the native replays.
// In the shared Go build cache they pile up without bound (a thorough sweep left more than 100 GB
// behind). So each run gets a private build cache inside its workspace, removed with it. To avoid
// recompiling the standard library every time, the private cache starts as a hard-link copy of a
// seed cache that holds the standard packages the replays need (plain and race-instrumented); the
// seed lives in /verif/bin (not versioned) and is built once, on first need.

const seedProgram = `package main

import (
	"bufio"
	"bytes"
	"encoding/json"
	"errors"
	"flag"
	"fmt"
	"go/format"
	"go/parser"
	"go/printer"
	"go/token"
	"io"
	"log"
	"math"
	"os"
	"reflect"
	"slices"
	"sort"
	"strconv"
	"strings"
	"sync"
	"text/template"
	"time"
	"unicode"
	"unicode/utf8"

	"vhlib/hl"
	"vhlib/ref"
	"vhlib/rt"
)

var _ = []any{bufio.NewReader, bytes.NewBuffer, json.Marshal, errors.New, flag.Parse, fmt.Sprint, format.Source, parser.ParseFile,
	printer.Fprint, token.NewFileSet, io.ReadAll, log.Fatal, math.MaxInt32, os.Exit, reflect.ValueOf, slices.Sort[[]int], sort.Ints,
	strconv.Quote, strings.Join, &sync.Mutex{}, template.New, time.Now, unicode.IsLetter, utf8.RuneLen, hl.NSw, ref.Run, rt.Main}

func main() {}
`

const seedTest = `package main

import "testing"

func TestNothing(t *testing.T) {}
`

func seedCacheDir() string { return filepath.Join(verifRoot, "bin", "gocache-seed") }

// ensureSeedCache builds the seed cache if it does not exist yet (one builder at a time).
func ensureSeedCache() error {
	seed := seedCacheDir()
	done := filepath.Join(seed, ".complete")
	if _, err := os.Stat(done); err == nil {
		return nil
	}
	os.MkdirAll(filepath.Dir(seed), 0o755)
	lock := seed + ".lock"
	for i := 0; ; i++ {
		if err := os.Mkdir(lock, 0o755); err == nil {
			break
		}
		if _, err := os.Stat(done); err == nil {
			return nil
		}
		if st, err := os.Stat(lock); err == nil && time.Since(st.ModTime()) > 15*time.Minute {
			os.Remove(lock) // a builder that died
			continue
		}
		if i > 600 {
			return fmt.Errorf("timed out waiting for %s", lock)
		}
		time.Sleep(time.Second)
	}
	defer os.Remove(lock)
	if _, err := os.Stat(done); err == nil {
		return nil
	}
	os.RemoveAll(seed)
	os.MkdirAll(seed, 0o755)
	tmp, err := os.MkdirTemp("", "vcheck-seed-")
	if err != nil {
		return err
	}
	defer os.RemoveAll(tmp)
	mod := "module seed\n\ngo 1.25\n\nrequire vhlib v0.0.0\n\nreplace vhlib => " + verifRoot + "/vhlib\n"
	os.WriteFile(filepath.Join(tmp, "go.mod"), []byte(mod), 0o644)
	os.WriteFile(filepath.Join(tmp, "main.go"), []byte(seedProgram), 0o644)
	os.WriteFile(filepath.Join(tmp, "main_test.go"), []byte(seedTest), 0o644)
	for _, args := range [][]string{
		{"build", "-o", os.DevNull, "."},
		{"test", "-c", "-vet=off", "-o", os.DevNull, "."},
		{"build", "-race", "-o", os.DevNull, "."},
		{"test", "-c", "-race", "-vet=off", "-o", os.DevNull, "."},
	} {
		cmd := exec.Command("go", args...)
		cmd.Dir = tmp
		cmd.Env = append(goEnv(), "GOCACHE="+seed)
		if out, err := cmd.CombinedOutput(); err != nil {
			return fmt.Errorf("building the seed cache (go %v): %v\n%s", args, err, out)
		}
	}
	return os.WriteFile(done, []byte(time.Now().Format(time.RFC3339)+"\n"), 0o644)
}

// privateGoCache gives this process (and every go command it starts) a build cache of its own
// inside dir.
func privateGoCache(dir string) error {
	if os.Getenv("VERIF_SHARED_GOCACHE") != "" {
		return nil
	}
	if err := ensureSeedCache(); err != nil {
		return err
	}
	cache := filepath.Join(dir, "gocache")
	if out, err := exec.Command("cp", "-al", seedCacheDir(), cache).CombinedOutput(); err != nil {
		os.RemoveAll(cache)
		if out2, err2 := exec.Command("cp", "-a", seedCacheDir(), cache).CombinedOutput(); err2 != nil {
			return fmt.Errorf("copying the seed cache: %v %s / %v %s", err, out, err2, out2)
		}
	}
	return os.Setenv("GOCACHE", cache)
}
