package main

import (
	"encoding/json"
	"fmt"
	"os"
)

// replayFile re-runs a recorded violation against the natively compiled real code built from
// /repo's current working tree. Exit 1 if it reproduces, 0 if it does not.
func replayFile(file string) int {
	data, err := os.ReadFile(file)
	if err != nil {
		fmt.Fprintln(os.Stderr, err)
		return 2
	}
	var f Finding
	if err := json.Unmarshal(data, &f); err != nil {
		fmt.Fprintln(os.Stderr, err)
		return 2
	}
	rep, ok := replayers[f.Property]
	if !ok {
		fmt.Fprintln(os.Stderr, "no replayer for", f.Property)
		return 2
	}
	ws, err := NewWorkspace(false)
	if err != nil {
		fmt.Fprintln(os.Stderr, err)
		return 3
	}
	defer ws.Close()
	out, err := rep(ws, &f)
	if err != nil {
		fmt.Fprintln(os.Stderr, "replay failed to run:", err)
		return 3
	}
	fmt.Printf("replay %s %s%v assert=%s vars=%v\nnative outcome: failed=%v panic=%q reached=%v obs=%v\n", f.Label, f.Entry, f.Args, f.AssertID, f.Vars,
		out.Failed, out.Panic, out.Reached, out.Obs)
	reproduced := out.Panic != "" && f.Kind != "assert"
	for _, id := range out.Failed {
		if id == f.AssertID {
			reproduced = true
		}
	}
	if reproduced {
		fmt.Printf("REPRODUCED property=%s\n", f.Property)
		return 1
	}
	fmt.Println("not reproduced on the current tree")
	return 0
}

type replayer func(ws *Workspace, f *Finding) (*ReplayOutcome, error)

var replayers = map[string]replayer{}

// replayInPkg runs one recorded case through the native build of a harness package.
func replayInPkg(dir, pkg string, entries []string, f *Finding) (*ReplayOutcome, error) {
	r := &NativeRunner{Dir: dir, PkgPath: pkg, Entries: entries}
	outs, err := r.Run([]ReplayCase{{Entry: f.Entry, Args: f.Args, Vars: f.Vars}}, 60*1e9)
	if err != nil {
		return nil, err
	}
	if len(outs) == 0 {
		return nil, fmt.Errorf("no outcome")
	}
	return &outs[0], nil
}
