package main

import (
	"os"
	"path/filepath"

	"verif/symx"
)

func init() {
	checks["C10"] = checkC10
	replayers["C10"] = func(ws *Workspace, f *Finding) (*ReplayOutcome, error) {
		if err := addC10Harness(ws); err != nil {
			return nil, err
		}
		r := &NativeRunner{Dir: ws.Repo, PkgPath: pegPkg, Entries: c10Entries, InPkg: true}
		outs, err := r.Run([]ReplayCase{{Entry: f.Entry, Args: f.Args, Vars: f.Vars}}, 120*1e9)
		if err != nil || len(outs) == 0 {
			return nil, err
		}
		return &outs[0], nil
	}
}

var c10Entries = []string{"VerifTemplate", "VerifTail", "VerifTailNL", "VerifActionTail", "VerifClassTail", "VerifEndTail"}

func addC10Harness(ws *Workspace) error {
	src, err := os.ReadFile(filepath.Join(verifRoot, "harness", "c10", "zz_verif_c10.go.txt"))
	if err != nil {
		return err
	}
	return os.WriteFile(filepath.Join(ws.Repo, "zz_verif_c10.go"), src, 0o644)
}

func checkC10(c *Ctx) error {
	ws := c.WS
	if err := addC10Harness(ws); err != nil {
		return err
	}
	l, err := LoadSSA(ws.Repo, ".")
	if err != nil {
		return err
	}
	if err := l.FirstBad(); err != nil {
		return err
	}
	c.LoadTime = l.LoadTime
	var jobs []*Job
	for id := 0; id <= 26; id++ {
		jobs = append(jobs, &Job{PkgPath: pegPkg, Entry: "VerifTemplate", Args: []int{id}, Label: "front-end"})
	}
	K := 2
	if !c.Quick() {
		K = 3
	}
	for k := 0; k <= K; k++ {
		jobs = append(jobs, &Job{PkgPath: pegPkg, Entry: "VerifTail", Args: []int{k}, Label: "front-end"})
		jobs = append(jobs, &Job{PkgPath: pegPkg, Entry: "VerifTailNL", Args: []int{k}, Label: "front-end"})
		jobs = append(jobs, &Job{PkgPath: pegPkg, Entry: "VerifActionTail", Args: []int{k + 1}, Label: "front-end"})
		jobs = append(jobs, &Job{PkgPath: pegPkg, Entry: "VerifEndTail", Args: []int{k}, Label: "front-end"})
		jobs = append(jobs, &Job{PkgPath: pegPkg, Entry: "VerifClassTail", Args: []int{k + 1}, Label: "front-end"})
	}
	cfg := symx.DefaultConfig()
	cfg.ValidateEvery = 25
	cfg.MaxPaths = 400000
	runner := &NativeRunner{Dir: ws.Repo, PkgPath: pegPkg, Entries: c10Entries, InPkg: true}
	res := RunJobs(l, jobs, c.Workers, cfg, c.Deadline)
	c.Programs = 1
	c.Bounds["templates"] = "27 templates of documented constructs with 1-3 symbolic hole characters (any code point unless an assumption restricts it)"
	c.Bounds["tails"] = "valid header + 'R <- ' + K arbitrary characters (with and without final newline), K <= 2 quick / 3 thorough"
	c.Bounds["outside"] = "texts that differ from a template in more than its holes; tails longer than K; non-ASCII letters in \"...\" and [[...]] (documentation silent); behaviour of the compiled parser for the denoted tree (C01)"
	c.Assumptions = append(c.Assumptions, "A-SSA", "A-SMT", "oracle: vhlib/pegread, an independent recursive-descent reader of docs/peg-file-syntax.md and the property's escape table",
		"sequence and ordered choice are compared up to associativity (nested lists flattened on both sides)")
	c.Process(res, func(*Job) *NativeRunner { return runner })
	return nil
}
