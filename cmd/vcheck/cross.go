package main

import (
	"bufio"
	"fmt"
	"io"
	"os"
	"os/exec"
	"path/filepath"
	"strings"
	"sync"
	"time"
)

// CrossStats is the result of replaying solver transcripts through a second solver.
type CrossStats struct {
	Solver        string  `json:"solver"`
	Replayed      int     `json:"queries_replayed"`
	Agreed        int     `json:"agreed"`
	Unknown       int     `json:"second_solver_unknown_or_timeout"`
	Disagreements int     `json:"disagreements"`
	Seconds       float64 `json:"seconds"`
	Example       string  `json:"first_disagreement,omitempty"`
}

// crossCheck replays the first maxPerFile queries of every transcript in dir through z3 and
// compares each verdict with the one cvc5 gave (recorded as "; => verdict" comments).
func crossCheck(dir string, maxPerFile int) CrossStats {
	st := CrossStats{Solver: solverVersion("z3")}
	t0 := time.Now()
	files, _ := filepath.Glob(filepath.Join(dir, "*.smt2"))
	var mu sync.Mutex
	var wg sync.WaitGroup
	sem := make(chan struct{}, 16)
	for _, f := range files {
		wg.Add(1)
		sem <- struct{}{}
		go func(f string) {
			defer wg.Done()
			defer func() { <-sem }()
			r := crossOne(f, maxPerFile)
			mu.Lock()
			st.Replayed += r.Replayed
			st.Agreed += r.Agreed
			st.Unknown += r.Unknown
			st.Disagreements += r.Disagreements
			if st.Example == "" {
				st.Example = r.Example
			}
			mu.Unlock()
		}(f)
	}
	wg.Wait()
	st.Seconds = time.Since(t0).Seconds()
	return st
}

func crossOne(file string, max int) CrossStats {
	var st CrossStats
	in, err := os.Open(file)
	if err != nil {
		return st
	}
	defer in.Close()
	cmd := exec.Command("z3", "-in")
	stdin, _ := cmd.StdinPipe()
	stdout, _ := cmd.StdoutPipe()
	if err := cmd.Start(); err != nil {
		return st
	}
	defer func() {
		stdin.Close()
		cmd.Process.Kill()
		cmd.Wait()
	}()
	w := bufio.NewWriter(stdin)
	out := bufio.NewReader(stdout)
	io.WriteString(w, "(set-option :timeout 3000)\n")
	// the second solver can be orders of magnitude slower on some queries: bound the replay of
	// one transcript by wall-clock time; what is not replayed is simply not counted
	deadline := time.AfterFunc(60*time.Second, func() { cmd.Process.Kill() })
	defer deadline.Stop()
	sc := bufio.NewScanner(in)
	sc.Buffer(make([]byte, 1<<20), 1<<26)
	pending := "" // z3's answer to the last check-sat
	for sc.Scan() {
		line := sc.Text()
		if strings.HasPrefix(line, "; => ") {
			want := strings.TrimPrefix(line, "; => ")
			st.Replayed++
			switch {
			case pending == "unknown" || pending == "" || strings.HasPrefix(pending, "(error"):
				st.Unknown++
			case want == "unknown":
				st.Unknown++
			case pending == want:
				st.Agreed++
			default:
				st.Disagreements++
				if st.Example == "" {
					st.Example = fmt.Sprintf("%s: query %d: cvc5 %s, z3 %s", filepath.Base(file), st.Replayed, want, pending)
				}
			}
			pending = ""
			if st.Replayed >= max {
				break
			}
			continue
		}
		if strings.HasPrefix(line, "(get-value") || strings.HasPrefix(line, "(set-logic") || strings.HasPrefix(line, "(exit") {
			continue // models are not compared; z3 runs without a logic restriction
		}
		w.WriteString(line)
		w.WriteByte('\n')
		if strings.HasPrefix(line, "(echo \"#sync\")") {
			w.Flush()
			for {
				l, err := out.ReadString('\n')
				if err != nil {
					return st
				}
				l = strings.TrimSpace(l)
				if l == "#sync" || l == "\"#sync\"" {
					break
				}
				if pending == "" && l != "" {
					pending = l
				}
			}
		}
	}
	return st
}
