package main

import (
	"fmt"
	"os"
	"path/filepath"
	"strings"

	"verif/symx"
)

func init() {
	checks["C17"] = checkC17
	replayers["C17"] = func(ws *Workspace, f *Finding) (*ReplayOutcome, error) {
		if err := addC17Harness(ws); err != nil {
			return nil, err
		}
		r := &NativeRunner{Dir: ws.Repo, PkgPath: pegPkg, Entries: c17Entries, InPkg: true}
		outs, err := r.Run([]ReplayCase{{Entry: f.Entry, Args: f.Args, Vars: f.Vars}}, 120*1e9)
		if err != nil || len(outs) == 0 {
			return nil, err
		}
		return &outs[0], nil
	}
}

var c17Entries = []string{"VerifC17Tail", "VerifC17Mid", "VerifC17End"}

const feAdapter = `package PKG

import "github.com/pointlander/peg/tree"

// Run parses text with this regenerated front end and returns verdict, tree and tokens.
func Run(text string) (ok bool, t *tree.Tree, rules []string, b, e []int) {
	p := &Peg[uint32]{Tree: tree.New(false, false, false), Buffer: text}
	_ = p.Init()
	if err := p.Parse(); err != nil {
		return false, nil, nil, nil, nil
	}
	for _, tk := range p.Tokens() {
		rules = append(rules, rul3s[tk.pegRule])
		b = append(b, int(tk.begin))
		e = append(e, int(tk.end))
	}
	p.Execute()
	return true, p.Tree, rules, b, e
}
`

// addC17Harness regenerates the front end from peg.peg under the four option sets with the
// peg built from the working tree, and adds the harness files.
func addC17Harness(ws *Workspace) error {
	if ws.PegBin == "" {
		if err := ws.BuildPeg(); err != nil {
			return err
		}
	}
	if err := addC10Harness(ws); err != nil {
		return err
	}
	grammar, err := os.ReadFile(filepath.Join(ws.Repo, "peg.peg"))
	if err != nil {
		return err
	}
	for _, vn := range []string{"d", "i", "s", "is"} {
		dir := filepath.Join(ws.Repo, "zzfe", vn)
		os.MkdirAll(dir, 0o755)
		text := strings.Replace(string(grammar), "package main", "package fe"+vn, 1)
		if err := os.WriteFile(filepath.Join(dir, "fe.peg"), []byte(text), 0o644); err != nil {
			return err
		}
		args := append(append([]string{"-strict"}, variants[vn].Flags...), "-output", "fe.peg.go", "fe.peg")
		if out, err := run(dir, ws.PegBin, args...); err != nil {
			return fmt.Errorf("regenerating the front end with %s failed: %v %s", variants[vn].FlagString(), err, trunc(out, 400))
		}
		os.WriteFile(filepath.Join(dir, "adapter.go"), []byte(strings.Replace(feAdapter, "PKG", "fe"+vn, 1)), 0o644)
	}
	src, err := os.ReadFile(filepath.Join(verifRoot, "harness", "c10", "zz_verif_c17.go.txt"))
	if err != nil {
		return err
	}
	return os.WriteFile(filepath.Join(ws.Repo, "zz_verif_c17.go"), src, 0o644)
}

func checkC17(c *Ctx) error {
	ws := c.WS
	if err := addC17Harness(ws); err != nil {
		return err
	}
	l, err := LoadSSA(ws.Repo, ".")
	if err != nil {
		return err
	}
	if err := l.FirstBad(); err != nil {
		return err
	}
	c.LoadTime = l.LoadTime
	K := 2
	if !c.Quick() {
		K = 3
	}
	var jobs []*Job
	for k := 0; k <= K; k++ {
		jobs = append(jobs, &Job{PkgPath: pegPkg, Entry: "VerifC17Tail", Args: []int{k}, Label: "front-ends"})
		jobs = append(jobs, &Job{PkgPath: pegPkg, Entry: "VerifC17Mid", Args: []int{k}, Label: "front-ends"})
		jobs = append(jobs, &Job{PkgPath: pegPkg, Entry: "VerifC17End", Args: []int{k}, Label: "front-ends"})
	}
	cfg := symx.DefaultConfig()
	cfg.ValidateEvery = 60
	cfg.MaxPaths = 400000
	runner := &NativeRunner{Dir: ws.Repo, PkgPath: pegPkg, Entries: c17Entries, InPkg: true}
	res := RunJobs(l, jobs, c.Workers, cfg, c.Deadline)
	c.Programs = 5
	c.Bounds["front_ends"] = "checked-in peg.peg.go and four front ends regenerated from peg.peg (default, -inline, -switch, -inline -switch) with the peg built from the working tree"
	c.Bounds["texts"] = fmt.Sprintf("valid header + rule body of K arbitrary characters, and K arbitrary characters inside a two-rule grammar; K <= %d", K)
	c.Bounds["reduced_claim"] = "NOT covered: byte-for-byte reproduction of peg.peg.go by the bootstrap chain (a closed concrete computation, no input to quantify over)"
	c.Assumptions = append(c.Assumptions, "A-SSA", "A-SMT", "same token list => same Execute action sequence => same builder calls => same tree (checked directly as well); the emitter is a function of the tree")
	c.Process(res, func(*Job) *NativeRunner { return runner })
	return runRealDiff(c)
}
