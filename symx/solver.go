package symx

import (
	"bufio"
	"fmt"
	"io"
	"os"
	"os/exec"
	"strconv"
	"strings"
	"time"
)

type Verdict int

const (
	Unsat Verdict = iota
	Sat
	Unknown
)

func (v Verdict) String() string { return [...]string{"unsat", "sat", "unknown"}[v] }

// Solver is one long-lived `z3 -in` process with an assertion stack that mirrors the
// engine's path condition (one push level per path-condition entry).
type Solver struct {
	cmd   *exec.Cmd
	in    *bufio.Writer
	inc   io.WriteCloser
	out   *bufio.Reader
	st    *Store
	depth int // push levels currently on the solver
	ndecl int // how many st.Vars are declared

	Transcript io.Writer // optional: every command sent

	Queries   int
	NSat      int
	NUnsat    int
	NUnknown  int
	Errors    []string
	Dur       time.Duration
	Binary    string
	TimeoutMs int
	Dead      bool // the solver process is gone; every answer is Unknown
}

func NewSolver(st *Store, binary string, transcript io.Writer) (*Solver, error) {
	args := []string{"-in"}
	isCVC := strings.Contains(binary, "cvc5")
	if isCVC {
		args = []string{"--incremental", "--lang=smt2", "--tlimit-per=20000"}
	}
	cmd := exec.Command(binary, args...)
	in, err := cmd.StdinPipe()
	if err != nil {
		return nil, err
	}
	out, err := cmd.StdoutPipe()
	if err != nil {
		return nil, err
	}
	cmd.Stderr = os.Stderr
	if err := cmd.Start(); err != nil {
		return nil, err
	}
	s := &Solver{cmd: cmd, in: bufio.NewWriterSize(in, 1<<16), inc: in, out: bufio.NewReader(out), st: st,
		Transcript: transcript, Binary: binary, TimeoutMs: 20000}
	if isCVC {
		s.send("(set-logic QF_BV)\n")
	}
	s.send("(set-option :global-declarations true)\n(set-option :produce-models true)\n")
	if !isCVC {
		s.send(fmt.Sprintf("(set-option :timeout %d)\n", s.TimeoutMs))
	}
	return s, nil
}

func (s *Solver) Close() {
	if s.cmd == nil {
		return
	}
	s.send("(exit)\n")
	s.in.Flush()
	s.inc.Close()
	s.cmd.Wait()
	s.cmd = nil
}

func (s *Solver) send(text string) {
	s.in.WriteString(text)
	if s.Transcript != nil {
		io.WriteString(s.Transcript, text)
	}
}

// flushDecls declares new variables and pending definitions.
func (s *Solver) flushDecls() {
	for ; s.ndecl < len(s.st.Vars); s.ndecl++ {
		v := s.st.Vars[s.ndecl]
		if v.W == 0 {
			s.send("(declare-const " + v.Name + " Bool)\n")
		} else {
			s.send("(declare-const " + v.Name + " (_ BitVec " + strconv.Itoa(int(v.W)) + "))\n")
		}
	}
}

// termStr returns the text for t after making sure everything it refers to is declared.
func (s *Solver) termStr(t *Term) string {
	str := t.String()
	s.flushDecls()
	if len(s.st.Defs) > 0 {
		for _, d := range s.st.Defs {
			s.send(d + "\n")
		}
		s.st.Defs = s.st.Defs[:0]
	}
	return str
}

func (s *Solver) Depth() int { return s.depth }

// Push asserts t at a new level.
func (s *Solver) Push(t *Term) {
	str := s.termStr(t)
	s.send("(push 1)\n(assert " + str + ")\n")
	s.depth++
}

func (s *Solver) PopTo(depth int) {
	if depth < s.depth {
		s.send("(pop " + strconv.Itoa(s.depth-depth) + ")\n")
		s.depth = depth
	}
}

func (s *Solver) readLine() string {
	for {
		if s.Dead {
			return "#dead"
		}
		line, err := s.out.ReadString('\n')
		if err != nil {
			s.Errors = append(s.Errors, "solver process died: "+err.Error())
			s.Dead = true
			return "#dead"
		}
		line = strings.TrimSpace(line)
		if line == "" {
			continue
		}
		return line
	}
}

func (s *Solver) verdict(line string) Verdict {
	switch line {
	case "sat":
		s.NSat++
		return Sat
	case "unsat":
		s.NUnsat++
		return Unsat
	}
	s.NUnknown++
	if line != "unknown" {
		s.Errors = append(s.Errors, line)
		// drain a possible multi-line error up to the sync marker is not needed: we always
		// follow with an echo marker below.
	}
	return Unknown
}

// Check decides satisfiability of (stack ∧ extra). extra may be nil. If vars is non-nil and the
// answer is sat, the values of vars are returned (complete model via get-value).
func (s *Solver) Check(extra *Term, vars []*Term) (Verdict, map[string]uint64) {
	t0 := time.Now()
	s.Queries++
	s.flushDecls()
	var str string
	if extra != nil {
		str = s.termStr(extra)
		s.send("(push 1)\n(assert " + str + ")\n")
	}
	s.send("(check-sat)\n(echo \"#sync\")\n")
	s.in.Flush()
	v := Unknown
	got := false
	for {
		line := s.readLine()
		if line == "#sync" || line == "\"#sync\"" {
			break
		}
		if line == "#dead" {
			v = Unknown
			s.NUnknown++
			break
		}
		if !got {
			v = s.verdict(line)
			got = true
		} else {
			s.Errors = append(s.Errors, "unexpected solver output: "+line)
			v = Unknown
		}
	}
	if s.Transcript != nil {
		io.WriteString(s.Transcript, "; => "+v.String()+"\n")
	}
	var model map[string]uint64
	if v == Sat && vars != nil {
		model = s.getValues(vars)
	}
	if extra != nil {
		s.send("(pop 1)\n")
	}
	s.Dur += time.Since(t0)
	return v, model
}

func (s *Solver) getValues(vars []*Term) map[string]uint64 {
	model := map[string]uint64{}
	if len(vars) == 0 {
		return model
	}
	var b strings.Builder
	b.WriteString("(get-value (")
	for _, v := range vars {
		b.WriteString(v.Name)
		b.WriteByte(' ')
	}
	b.WriteString("))\n(echo \"#sync\")\n")
	s.send(b.String())
	s.in.Flush()
	var text strings.Builder
	for {
		line := s.readLine()
		if line == "#sync" || line == "\"#sync\"" || line == "#dead" {
			break
		}
		text.WriteString(line)
		text.WriteByte(' ')
	}
	// parse ((name value) (name value) ...)
	toks := strings.Fields(strings.NewReplacer("(", " ( ", ")", " ) ").Replace(text.String()))
	for i := 0; i+1 < len(toks); i++ {
		if toks[i] != "(" || toks[i+1] == "(" || toks[i+1] == ")" {
			continue
		}
		name := toks[i+1]
		if i+2 >= len(toks) {
			break
		}
		val := toks[i+2]
		switch {
		case val == "true":
			model[name] = 1
		case val == "false":
			model[name] = 0
		case strings.HasPrefix(val, "#x"):
			u, _ := strconv.ParseUint(val[2:], 16, 64)
			model[name] = u
		case strings.HasPrefix(val, "#b"):
			u, _ := strconv.ParseUint(val[2:], 2, 64)
			model[name] = u
		case val == "(" && i+4 < len(toks) && toks[i+3] == "_" && strings.HasPrefix(toks[i+4], "bv"):
			u, _ := strconv.ParseUint(toks[i+4][2:], 10, 64)
			model[name] = u
		default:
			if strings.HasPrefix(name, "error") || name == "error" {
				s.Errors = append(s.Errors, "get-value: "+text.String())
			}
			continue
		}
	}
	return model
}
