package symx

import (
	"fmt"
	"go/constant"
	"go/token"
	"go/types"
	"math"
	"strings"

	"golang.org/x/tools/go/ssa"
)

// ---- control-flow signals (Go panics used inside the engine) ----

// pathEnd aborts the current path.
type pathEnd struct {
	kind string // "assume", "infeasible", "violation", "budget", "unsupported", "exit", "panic"
	msg  string
}

// goPanic is a Go-level panic raised by the interpreted program.
type goPanic struct {
	val Value
	msg string
	pos string
	rt  bool // runtime error (nil deref, index out of range ...)
}

// exitSignal is os.Exit / log.Fatal.
type exitSignal struct{ code int64 }

// ---- pre-decoded functions ----

const (
	okReg uint8 = iota
	okVal
	okZero
	okGlobal
	okNil // absent operand
)

type opnd struct {
	kind uint8
	reg  int
	v    Value
	t    types.Type
	g    *ssa.Global
}

type dinstr struct {
	in  ssa.Instruction
	dst int
	ops []opnd
}

type blockInfo struct {
	instrs []dinstr
	b      *ssa.BasicBlock
}

type fnInfo struct {
	fn     *ssa.Function
	nregs  int
	blocks []*blockInfo
	name   string
	pkg    string
	ninstr int
}

type deferred struct {
	fn   Value // *Closure
	args []Value
	call *ssa.CallCommon // for invoke-mode
	recv Value
}

type frame struct {
	fi        *fnInfo
	regs      []Value
	defers    []deferred
	panicking *goPanic
	recovered bool
}

func (e *Engine) info(fn *ssa.Function) *fnInfo {
	if fi, ok := e.fns[fn]; ok {
		return fi
	}
	fi := &fnInfo{fn: fn, name: fn.String()}
	if fn.Pkg != nil {
		fi.pkg = fn.Pkg.Pkg.Path()
	} else if o := fn.Origin(); o != nil && o.Pkg != nil {
		fi.pkg = o.Pkg.Pkg.Path()
	} else if fn.Parent() != nil {
		p := fn
		for p.Parent() != nil {
			p = p.Parent()
		}
		if p.Pkg != nil {
			fi.pkg = p.Pkg.Pkg.Path()
		} else if o := p.Origin(); o != nil && o.Pkg != nil {
			fi.pkg = o.Pkg.Pkg.Path()
		}
	}
	if fi.pkg == "" && fn.Signature != nil && fn.Signature.Recv() != nil {
		// synthetic method wrappers have no package of their own: use the receiver type's
		rt := fn.Signature.Recv().Type()
		if p, ok := rt.(*types.Pointer); ok {
			rt = p.Elem()
		}
		if n, ok := rt.(*types.Named); ok && n.Obj().Pkg() != nil {
			fi.pkg = n.Obj().Pkg().Path()
		}
	}
	e.fns[fn] = fi
	idx := map[ssa.Value]int{}
	n := 0
	for _, p := range fn.Params {
		idx[p] = n
		n++
	}
	for _, p := range fn.FreeVars {
		idx[p] = n
		n++
	}
	for _, b := range fn.Blocks {
		for _, in := range b.Instrs {
			if v, ok := in.(ssa.Value); ok {
				idx[v] = n
				n++
			}
		}
	}
	fi.nregs = n
	var rands [8]*ssa.Value
	for _, b := range fn.Blocks {
		bi := &blockInfo{b: b}
		for _, in := range b.Instrs {
			if _, ok := in.(*ssa.DebugRef); ok {
				continue
			}
			d := dinstr{in: in, dst: -1}
			if v, ok := in.(ssa.Value); ok {
				d.dst = idx[v]
			}
			for _, r := range in.Operands(rands[:0]) {
				d.ops = append(d.ops, e.mkOpnd(*r, idx))
			}
			bi.instrs = append(bi.instrs, d)
			fi.ninstr++
		}
		fi.blocks = append(fi.blocks, bi)
	}
	return fi
}

func (e *Engine) mkOpnd(v ssa.Value, idx map[ssa.Value]int) opnd {
	switch c := v.(type) {
	case nil:
		return opnd{kind: okNil}
	case *ssa.Const:
		if c.Value == nil {
			// zero value of the type
			switch c.Type().Underlying().(type) {
			case *types.Struct, *types.Array, *types.Tuple:
				return opnd{kind: okZero, t: c.Type()}
			}
			return opnd{kind: okVal, v: e.zero(c.Type())}
		}
		switch c.Value.Kind() {
		case constant.Bool:
			return opnd{kind: okVal, v: constant.BoolVal(c.Value)}
		case constant.String:
			return opnd{kind: okVal, v: constant.StringVal(c.Value)}
		case constant.Int:
			if b, ok := c.Type().Underlying().(*types.Basic); ok && b.Info()&types.IsFloat != 0 {
				f, _ := constant.Float64Val(c.Value)
				return opnd{kind: okVal, v: f}
			}
			w, signed := width(c.Type())
			if i, ok := constant.Int64Val(c.Value); ok {
				return opnd{kind: okVal, v: norm(i, w, signed)}
			}
			u, _ := constant.Uint64Val(c.Value)
			return opnd{kind: okVal, v: int64(u)}
		case constant.Float:
			f, _ := constant.Float64Val(c.Value)
			return opnd{kind: okVal, v: f}
		}
		panic(unsupported("constant kind " + c.Value.Kind().String()))
	case *ssa.Function:
		return opnd{kind: okVal, v: &Closure{Fn: c}}
	case *ssa.Global:
		return opnd{kind: okGlobal, g: c}
	case *ssa.Builtin:
		return opnd{kind: okNil}
	}
	i, ok := idx[v]
	if !ok {
		panic(fmt.Sprintf("no register for %s (%T)", v.Name(), v))
	}
	return opnd{kind: okReg, reg: i}
}

func (e *Engine) get(fr *frame, o *opnd) Value {
	switch o.kind {
	case okReg:
		return fr.regs[o.reg]
	case okVal:
		return o.v
	case okZero:
		return e.zero(o.t)
	case okGlobal:
		return e.global(o.g)
	}
	return nil
}

func (e *Engine) global(g *ssa.Global) *Cell {
	c, ok := e.globals[g]
	if !ok {
		c = e.newCell(e.zero(g.Type().Underlying().(*types.Pointer).Elem()))
		if g.Pkg != nil && g.Pkg.Pkg.Path() == "os" {
			switch g.Name() {
			case "Stdin", "Stdout", "Stderr":
				c.V = e.stdFile(g.Name())
			}
		}
		e.globals[g] = c
		// make sure the defining package is initialised (lazily, once per path)
		if g.Pkg != nil {
			e.initPkg(g.Pkg)
			c = e.globals[g]
		}
	}
	return c
}

// initPkg runs the package initialiser once per path for packages the engine interprets.
func (e *Engine) initPkg(p *ssa.Package) {
	if e.inited[p] {
		return
	}
	e.inited[p] = true
	if !e.interpretPkg(p.Pkg.Path()) {
		return
	}
	if init := p.Func("init"); init != nil && init.Blocks != nil {
		e.call(init, nil, nil)
	}
}

func (e *Engine) pos(in ssa.Instruction) string {
	p := in.Pos()
	if !p.IsValid() {
		return in.Parent().String()
	}
	pp := e.prog.Fset.Position(p)
	return fmt.Sprintf("%s:%d", pp.Filename, pp.Line)
}

func (e *Engine) rtPanic(in ssa.Instruction, msg string) {
	panic(&goPanic{msg: "runtime error: " + msg, val: &Iface{T: types.Typ[types.String], V: "runtime error: " + msg}, pos: e.pos(in), rt: true})
}

// ---- calls ----

// callReal interprets fn even if a stub is registered for it (used by recording stubs).
func (e *Engine) callReal(fn *ssa.Function, args []Value) Value {
	e.noIntercept = fn
	return e.call(fn, args, nil)
}

func (e *Engine) call(fn *ssa.Function, args []Value, env []Value) (result Value) {
	if e.noIntercept == fn {
		e.noIntercept = nil
	} else if r, ok := e.intercept(fn, args); ok {
		return r
	}
	if fn.Blocks == nil {
		panic(pathEnd{"unsupported", "function without body: " + fn.String()})
	}
	fi := e.info(fn)
	if !e.interpretPkg(fi.pkg) {
		panic(pathEnd{"unsupported", "call into package outside the encoded set: " + fn.String()})
	}
	e.funcsHit[fi]++
	e.depth++
	if e.depth > e.cfg.MaxDepth {
		panic(pathEnd{"budget", "call depth exceeded in " + fn.String()})
	}
	fr := &frame{fi: fi, regs: make([]Value, fi.nregs)}
	n := 0
	for i := range fn.Params {
		fr.regs[n] = args[i]
		n++
	}
	for i := range fn.FreeVars {
		fr.regs[n] = env[i]
		n++
	}
	if fn.Recover == nil && !hasDefer(fn) {
		r := e.run(fr, fi.blocks[0])
		e.depth--
		return r
	}
	// function with defers: Go panics unwinding through it run its deferred calls
	depth := e.depth
	func() {
		defer func() {
			if r := recover(); r != nil {
				gp, ok := r.(*goPanic)
				if !ok {
					panic(r)
				}
				e.depth = depth
				fr.panicking = gp
				e.runDefers(fr)
				if fr.panicking != nil {
					panic(fr.panicking)
				}
				// recovered: return via the recover block, or zero results
				if fn.Recover != nil {
					result = e.run(fr, fi.blocks[fn.Recover.Index])
				} else {
					result = e.zeroResults(fn)
				}
			}
		}()
		result = e.run(fr, fi.blocks[0])
	}()
	e.depth--
	return result
}

var hasDeferCache = map[*ssa.Function]bool{}

func hasDefer(fn *ssa.Function) bool {
	for _, b := range fn.Blocks {
		for _, in := range b.Instrs {
			switch in.(type) {
			case *ssa.Defer, *ssa.RunDefers:
				return true
			}
		}
	}
	return false
}

func (e *Engine) zeroResults(fn *ssa.Function) Value {
	res := fn.Signature.Results()
	switch res.Len() {
	case 0:
		return nil
	case 1:
		return e.zero(res.At(0).Type())
	}
	return e.zero(res)
}

func (e *Engine) runDefers(fr *frame) {
	for len(fr.defers) > 0 {
		d := fr.defers[len(fr.defers)-1]
		fr.defers = fr.defers[:len(fr.defers)-1]
		e.curFrames = append(e.curFrames, fr)
		func() {
			defer func() { e.curFrames = e.curFrames[:len(e.curFrames)-1] }()
			defer func() {
				if r := recover(); r != nil {
					if gp, ok := r.(*goPanic); ok {
						// a deferred call panicked: replaces the current panic
						fr.panicking = gp
						return
					}
					panic(r)
				}
			}()
			e.callValue(d.fn, d.args, d.call, d.recv)
		}()
	}
}

// callValue calls a func value or (invoke mode) a method on an interface.
func (e *Engine) callValue(fv Value, args []Value, cc *ssa.CallCommon, recv Value) Value {
	if cc != nil && cc.IsInvoke() {
		return e.invoke(recv, cc.Method, args)
	}
	cl, _ := fv.(*Closure)
	if cl == nil {
		panic(&goPanic{msg: "runtime error: invalid memory address or nil pointer dereference (nil func call)", rt: true})
	}
	return e.call(cl.Fn, args, cl.Env)
}

func (e *Engine) invoke(recv Value, m *types.Func, args []Value) Value {
	ifc, _ := recv.(*Iface)
	if ifc == nil {
		panic(&goPanic{msg: "runtime error: invalid memory address or nil pointer dereference (method call on nil interface)", rt: true})
	}
	if nat, ok := ifc.V.(*Native); ok {
		return e.nativeMethod(nat, m.Name(), args, m)
	}
	fn := e.methodOf(ifc.T, m.Name())
	if fn == nil {
		panic(pathEnd{"unsupported", fmt.Sprintf("no method %s on %s", m.Name(), ifc.T)})
	}
	return e.call(fn, append([]Value{ifc.V}, args...), nil)
}

// ---- the interpreter loop ----

func (e *Engine) run(fr *frame, blk *blockInfo) Value {
	var prev *ssa.BasicBlock
	for {
		var next *ssa.BasicBlock
		instrs := blk.instrs
		// phis first (parallel assignment)
		k := 0
		if len(instrs) > 0 {
			if _, ok := instrs[0].in.(*ssa.Phi); ok {
				var tmp [8]Value
				vals := tmp[:0]
				for ; k < len(instrs); k++ {
					phi, ok := instrs[k].in.(*ssa.Phi)
					if !ok {
						break
					}
					_ = phi
					for pi, p := range blk.b.Preds {
						if p == prev {
							vals = append(vals, e.get(fr, &instrs[k].ops[pi]))
							break
						}
					}
				}
				for j := 0; j < k; j++ {
					fr.regs[instrs[j].dst] = vals[j]
				}
			}
		}
		e.steps += len(instrs)
		if e.steps > e.cfg.MaxSteps {
			panic(pathEnd{"budget", "step budget exceeded in " + fr.fi.name})
		}
		for ; k < len(instrs); k++ {
			d := &instrs[k]
			switch i := d.in.(type) {
			case *ssa.Alloc:
				fr.regs[d.dst] = e.newCell(e.zero(i.Type().Underlying().(*types.Pointer).Elem()))
			case *ssa.BinOp:
				fr.regs[d.dst] = e.binop(i, i.Op, e.get(fr, &d.ops[0]), e.get(fr, &d.ops[1]), i.X.Type(), i.Y.Type())
			case *ssa.UnOp:
				x := e.get(fr, &d.ops[0])
				switch i.Op {
				case token.MUL:
					p, _ := x.(*Cell)
					if p == nil {
						e.rtPanic(i, "invalid memory address or nil pointer dereference")
					}
					e.touch(p, false)
					fr.regs[d.dst] = e.copyVal(p.V)
				case token.NOT:
					switch c := x.(type) {
					case bool:
						fr.regs[d.dst] = !c
					case *Term:
						fr.regs[d.dst] = e.st.Not(c)
					}
				case token.SUB:
					w, s := width(i.Type())
					switch c := x.(type) {
					case int64:
						fr.regs[d.dst] = norm(-c, w, s)
					case *Term:
						fr.regs[d.dst] = e.st.Neg(c)
					case float64:
						fr.regs[d.dst] = -c
					}
				case token.XOR:
					w, s := width(i.Type())
					switch c := x.(type) {
					case int64:
						fr.regs[d.dst] = norm(^c, w, s)
					case *Term:
						fr.regs[d.dst] = e.st.BNot(c)
					}
				default:
					panic(pathEnd{"unsupported", "unary " + i.Op.String()})
				}
			case *ssa.FieldAddr:
				p, _ := e.get(fr, &d.ops[0]).(*Cell)
				if p == nil {
					e.rtPanic(i, "invalid memory address or nil pointer dereference")
				}
				fr.regs[d.dst] = p.V.(*StructV).F[i.Field]
			case *ssa.Field:
				fr.regs[d.dst] = e.copyVal(e.get(fr, &d.ops[0]).(*StructV).F[i.Field].V)
			case *ssa.Store:
				p, _ := e.get(fr, &d.ops[0]).(*Cell)
				if p == nil {
					e.rtPanic(i, "invalid memory address or nil pointer dereference")
				}
				e.touch(p, true)
				e.store(p, e.get(fr, &d.ops[1]))
			case *ssa.IndexAddr:
				fr.regs[d.dst] = e.indexAddr(i, e.get(fr, &d.ops[0]), e.get(fr, &d.ops[1]))
			case *ssa.Index:
				fr.regs[d.dst] = e.index(i, e.get(fr, &d.ops[0]), e.get(fr, &d.ops[1]))
			case *ssa.Lookup:
				fr.regs[d.dst] = e.lookup(i, e.get(fr, &d.ops[0]), e.get(fr, &d.ops[1]))
			case *ssa.Slice:
				fr.regs[d.dst] = e.slice(i, fr, d)
			case *ssa.Call:
				fr.regs[d.dst] = e.doCall(fr, d, &i.Call, i)
			case *ssa.Defer:
				df := e.mkDeferred(fr, d, &i.Call)
				fr.defers = append(fr.defers, df)
			case *ssa.RunDefers:
				e.runDefers(fr)
				if fr.panicking != nil {
					panic(fr.panicking)
				}
			case *ssa.Go:
				panic(pathEnd{"unsupported", "go statement at " + e.pos(i)})
			case *ssa.Panic:
				v := e.get(fr, &d.ops[0])
				panic(&goPanic{val: v, msg: e.panicString(v), pos: e.pos(i)})
			case *ssa.Phi:
				panic("phi in the middle of a block")
			case *ssa.Convert:
				fr.regs[d.dst] = e.convert(i, e.get(fr, &d.ops[0]), i.X.Type(), i.Type())
			case *ssa.MultiConvert:
				fr.regs[d.dst] = e.convert(i, e.get(fr, &d.ops[0]), i.X.Type(), i.Type())
			case *ssa.ChangeType:
				fr.regs[d.dst] = e.get(fr, &d.ops[0])
			case *ssa.ChangeInterface:
				fr.regs[d.dst] = e.get(fr, &d.ops[0])
			case *ssa.MakeInterface:
				fr.regs[d.dst] = &Iface{T: i.X.Type(), V: e.get(fr, &d.ops[0])}
			case *ssa.MakeClosure:
				c := &Closure{Fn: i.Fn.(*ssa.Function), Env: make([]Value, len(i.Bindings))}
				for bi := range i.Bindings {
					c.Env[bi] = e.get(fr, &d.ops[bi+1])
				}
				fr.regs[d.dst] = c
			case *ssa.MakeMap:
				e.cellSeq++
				fr.regs[d.dst] = &MapV{M: map[string]*mapEntry{}, ID: e.cellSeq}
			case *ssa.MakeSlice:
				n := e.concreteInt(e.get(fr, &d.ops[0]), "make len")
				c := e.concreteInt(e.get(fr, &d.ops[1]), "make cap")
				if n < 0 || c < n {
					e.rtPanic(i, "makeslice: len out of range")
				}
				if c > 1<<24 {
					panic(pathEnd{"unsupported", "make of very large slice"})
				}
				el := i.Type().Underlying().(*types.Slice).Elem()
				fr.regs[d.dst] = &SliceV{B: &Backing{Cells: make([]*Cell, c), Elem: el}, Len: int(n), Cap: int(c)}
			case *ssa.MapUpdate:
				m, _ := e.get(fr, &d.ops[0]).(*MapV)
				if m == nil {
					e.rtPanic(i, "assignment to entry in nil map")
				}
				key := e.get(fr, &d.ops[1])
				ks := e.keyOf(key)
				if ent, ok := m.M[ks]; ok {
					ent.V = e.copyVal(e.get(fr, &d.ops[2]))
				} else {
					m.M[ks] = &mapEntry{K: key, V: e.copyVal(e.get(fr, &d.ops[2]))}
					m.Order = append(m.Order, ks)
				}
				e.touchID(m.ID, true)
			case *ssa.Extract:
				fr.regs[d.dst] = e.get(fr, &d.ops[0]).(Tuple)[i.Index]
			case *ssa.TypeAssert:
				fr.regs[d.dst] = e.typeAssert(i, e.get(fr, &d.ops[0]))
			case *ssa.Range:
				fr.regs[d.dst] = e.mkRange(i, e.get(fr, &d.ops[0]))
			case *ssa.Next:
				fr.regs[d.dst] = e.next(i, e.get(fr, &d.ops[0]).(*IterV))
			case *ssa.SliceToArrayPointer:
				panic(pathEnd{"unsupported", "slice to array pointer"})
			case *ssa.If:
				c := e.get(fr, &d.ops[0])
				var t bool
				switch cc := c.(type) {
				case bool:
					t = cc
				case *Term:
					t = e.decide(cc, "")
				default:
					panic(fmt.Sprintf("if on %T", c))
				}
				if t {
					next = blk.b.Succs[0]
				} else {
					next = blk.b.Succs[1]
				}
			case *ssa.Jump:
				next = blk.b.Succs[0]
			case *ssa.Return:
				if len(fr.defers) > 0 && false {
					e.runDefers(fr)
				}
				switch len(d.ops) {
				case 0:
					return nil
				case 1:
					return e.get(fr, &d.ops[0])
				}
				t := make(Tuple, len(d.ops))
				for ri := range d.ops {
					t[ri] = e.get(fr, &d.ops[ri])
				}
				return t
			case *ssa.Select, *ssa.Send, *ssa.MakeChan:
				panic(pathEnd{"unsupported", "channel operation at " + e.pos(i)})
			default:
				panic(pathEnd{"unsupported", fmt.Sprintf("instruction %T in %s", d.in, fr.fi.name)})
			}
		}
		if next == nil {
			panic("block fell through: " + fr.fi.name)
		}
		prev = blk.b
		blk = fr.fi.blocks[next.Index]
	}
}

func (e *Engine) panicString(v Value) string {
	ifc, _ := v.(*Iface)
	if ifc == nil {
		return "panic(nil)"
	}
	switch x := ifc.V.(type) {
	case string:
		return "panic: " + x
	case *Native:
		return "panic: " + e.showStr(x.Msg)
	case int64:
		return fmt.Sprintf("panic: %d", x)
	}
	// error values with an Error method
	if fn := e.methodOf(ifc.T, "Error"); fn != nil {
		r := e.call(fn, []Value{ifc.V}, nil)
		return "panic: " + e.showStr(r)
	}
	return "panic: " + ifc.T.String()
}

func (e *Engine) showStr(v Value) string {
	switch x := v.(type) {
	case string:
		return x
	case *Rope:
		var b strings.Builder
		for _, s := range x.Segs {
			switch {
			case s.R != nil:
				b.WriteString("⟨" + s.R.String() + "⟩")
			case s.Q != nil:
				b.WriteString("Quote(" + e.showStr(s.Q.value()) + ")")
			default:
				b.WriteString(s.S)
			}
		}
		return b.String()
	}
	return fmt.Sprint(v)
}

func (e *Engine) mkDeferred(fr *frame, d *dinstr, cc *ssa.CallCommon) deferred {
	args := make([]Value, len(cc.Args))
	for ai := range cc.Args {
		args[ai] = e.get(fr, &d.ops[ai+1])
	}
	if cc.IsInvoke() {
		return deferred{call: cc, recv: e.get(fr, &d.ops[0]), args: args}
	}
	if b, ok := cc.Value.(*ssa.Builtin); ok {
		// deferred builtin: wrap
		return deferred{fn: &Closure{Fn: nil}, args: args, call: nil, recv: b.Name()}
	}
	return deferred{fn: e.get(fr, &d.ops[0]), args: args}
}

func (e *Engine) doCall(fr *frame, d *dinstr, cc *ssa.CallCommon, in ssa.Instruction) Value {
	args := make([]Value, len(cc.Args))
	for ai := range cc.Args {
		args[ai] = e.get(fr, &d.ops[ai+1])
	}
	if cc.IsInvoke() {
		return e.invoke(e.get(fr, &d.ops[0]), cc.Method, args)
	}
	switch callee := cc.Value.(type) {
	case *ssa.Builtin:
		return e.builtin(fr, in, callee, cc, args)
	case *ssa.Function:
		return e.call(callee, args, nil)
	}
	cl, _ := e.get(fr, &d.ops[0]).(*Closure)
	if cl == nil {
		e.rtPanic(in, "invalid memory address or nil pointer dereference (nil func call)")
	}
	return e.call(cl.Fn, args, cl.Env)
}

// ---- helpers: indexing ----

func (e *Engine) concreteInt(v Value, what string) int64 {
	switch x := v.(type) {
	case int64:
		return x
	case *Term:
		return e.concretize(x)
	}
	panic(unsupported(fmt.Sprintf("%s: %T", what, v)))
}

func (b *Backing) cell(e *Engine, i int) *Cell {
	c := b.Cells[i]
	if c == nil {
		c = e.newCell(e.zero(b.Elem))
		b.Cells[i] = c
	}
	return c
}

func (e *Engine) indexAddr(in *ssa.IndexAddr, x, iv Value) Value {
	switch xx := x.(type) {
	case *SliceV:
		idx := e.concreteInt(iv, "slice index")
		if idx < 0 || int(idx) >= xx.Len {
			e.rtPanic(in, fmt.Sprintf("index out of range [%d] with length %d", idx, xx.Len))
		}
		if xx.B.Rope != nil {
			panic(pathEnd{"unsupported", "byte access into a symbolic string"})
		}
		return xx.B.cell(e, xx.Off+int(idx))
	case *Cell:
		if xx == nil {
			e.rtPanic(in, "invalid memory address or nil pointer dereference")
		}
		a := xx.V.(*StructV)
		if t, ok := iv.(*Term); ok && len(a.F) <= 64 {
			_ = t
		}
		idx := e.concreteInt(iv, "array index")
		if idx < 0 || int(idx) >= len(a.F) {
			e.rtPanic(in, fmt.Sprintf("index out of range [%d] with length %d", idx, len(a.F)))
		}
		return a.F[idx]
	}
	panic(pathEnd{"unsupported", fmt.Sprintf("IndexAddr on %T", x)})
}

func (e *Engine) index(in *ssa.Index, x, iv Value) Value {
	switch xx := x.(type) {
	case *StructV:
		idx := e.concreteInt(iv, "array index")
		if idx < 0 || int(idx) >= len(xx.F) {
			e.rtPanic(in, fmt.Sprintf("index out of range [%d] with length %d", idx, len(xx.F)))
		}
		return e.copyVal(xx.F[idx].V)
	case string:
		idx := e.concreteInt(iv, "string index")
		if idx < 0 || int(idx) >= len(xx) {
			e.rtPanic(in, fmt.Sprintf("index out of range [%d] with length %d", idx, len(xx)))
		}
		return int64(xx[idx])
	case *Rope:
		return e.ropeByte(in, xx, iv)
	}
	panic(pathEnd{"unsupported", fmt.Sprintf("Index on %T", x)})
}

func (e *Engine) lookup(in *ssa.Lookup, x, kv Value) Value {
	switch xx := x.(type) {
	case string:
		idx := e.concreteInt(kv, "string index")
		if idx < 0 || int(idx) >= len(xx) {
			e.rtPanic(in, fmt.Sprintf("index out of range [%d] with length %d", idx, len(xx)))
		}
		return int64(xx[idx])
	case *Rope:
		return e.ropeByte(in, xx, kv)
	case *MapV:
		var ent *mapEntry
		ok := false
		if xx != nil {
			ent, ok = xx.M[e.keyOf(kv)]
			e.touchID(xx.ID, false)
		}
		var v Value
		if ok {
			v = e.copyVal(ent.V)
		} else {
			v = e.zero(in.X.Type().Underlying().(*types.Map).Elem())
		}
		if in.CommaOk {
			return Tuple{v, ok}
		}
		return v
	}
	panic(pathEnd{"unsupported", fmt.Sprintf("Lookup on %T", x)})
}

// ropeByte supports s[i] on a rope only inside a concrete prefix.
func (e *Engine) ropeByte(in ssa.Instruction, r *Rope, kv Value) Value {
	idx := e.concreteInt(kv, "string index")
	off := int64(0)
	for _, s := range r.Segs {
		if s.R != nil || s.Q != nil {
			break
		}
		if idx < off+int64(len(s.S)) {
			return int64(s.S[idx-off])
		}
		off += int64(len(s.S))
	}
	panic(pathEnd{"unsupported", "byte index into the symbolic part of a string at " + e.pos(in)})
}

func (e *Engine) slice(in *ssa.Slice, fr *frame, d *dinstr) Value {
	x := e.get(fr, &d.ops[0])
	geti := func(k int, def int) int {
		if d.ops[k].kind == okNil {
			return def
		}
		return int(e.concreteInt(e.get(fr, &d.ops[k]), "slice bound"))
	}
	switch xx := x.(type) {
	case *SliceV:
		lo := geti(1, 0)
		hi := geti(2, xx.Len)
		mx := geti(3, xx.Cap)
		if lo < 0 || lo > hi || hi > mx || mx > xx.Cap {
			e.rtPanic(in, fmt.Sprintf("slice bounds out of range [%d:%d:%d] with capacity %d", lo, hi, mx, xx.Cap))
		}
		if xx.B == nil {
			return &SliceV{}
		}
		return &SliceV{B: xx.B, Off: xx.Off + lo, Len: hi - lo, Cap: mx - lo}
	case *Cell: // pointer to array
		if xx == nil {
			e.rtPanic(in, "invalid memory address or nil pointer dereference")
		}
		a := xx.V.(*StructV)
		lo := geti(1, 0)
		hi := geti(2, len(a.F))
		mx := geti(3, len(a.F))
		if lo < 0 || lo > hi || hi > mx || mx > len(a.F) {
			e.rtPanic(in, "slice bounds out of range")
		}
		el := in.Type().Underlying().(*types.Slice).Elem()
		return &SliceV{B: &Backing{Cells: a.F, Elem: el}, Off: lo, Len: hi - lo, Cap: mx - lo}
	case string:
		lo := geti(1, 0)
		hi := geti(2, len(xx))
		if lo < 0 || lo > hi || hi > len(xx) {
			e.rtPanic(in, fmt.Sprintf("slice bounds out of range [%d:%d] with length %d", lo, hi, len(xx)))
		}
		return xx[lo:hi]
	case *Rope:
		return e.ropeSlice(in, xx, fr, d)
	}
	panic(pathEnd{"unsupported", fmt.Sprintf("Slice of %T", x)})
}

// ropeSlice implements s[lo:hi] (byte offsets) on a string with symbolic runes. If every
// symbolic rune is ASCII (one byte) the result is exact. Otherwise — byte offsets into
// multi-byte symbolic runes — the engine continues with ONE representative assignment of the
// runes taken from a solver model (an under-approximation): a violation found on that side is
// real and is replayed natively, but a pass there proves nothing, so the path is reported as
// unsupported unless it ends in a violation.
func (e *Engine) ropeSlice(in *ssa.Slice, r *Rope, fr *frame, d *dinstr) Value {
	geti := func(k int, def int) int {
		if d.ops[k].kind == okNil {
			return def
		}
		return int(e.concreteInt(e.get(fr, &d.ops[k]), "slice bound"))
	}
	var syms []*Term
	for _, sg := range r.Segs {
		if sg.Q != nil {
			panic(pathEnd{"unsupported", "slicing a string containing Quote(symbolic) at " + e.pos(in)})
		}
		if sg.R != nil {
			syms = append(syms, sg.R)
		}
	}
	st := e.st
	ascii := st.True
	for _, t := range syms {
		ascii = st.And(ascii, st.Lt(t, st.BV(0x80, 32), true))
	}
	if e.decideV(ascii, "ascii-slice") {
		// one byte per rune: byte offsets are item offsets
		its := items(r)
		lo := geti(1, 0)
		hi := geti(2, len(its))
		if lo < 0 || lo > hi || hi > len(its) {
			e.rtPanic(in, fmt.Sprintf("slice bounds out of range [%d:%d] with length %d", lo, hi, len(its)))
		}
		vals := make([]Value, 0, hi-lo)
		for _, it := range its[lo:hi] {
			if it.Raw != "" {
				panic(pathEnd{"unsupported", "slicing a string with invalid UTF-8 at " + e.pos(in)})
			}
			vals = append(vals, it.R)
		}
		return e.stringOfRunes(vals)
	}
	// representative for the non-ASCII side
	e.qs.Concretize++
	v, m := e.sol.Check(nil, e.jobVars)
	e.count(v)
	if v != Sat {
		panic(pathEnd{"infeasible", "no model for byte slicing"})
	}
	e.partial = "byte-level slicing of non-ASCII symbolic runes at " + e.pos(in) + ": one representative explored"
	var b strings.Builder
	for _, sg := range r.Segs {
		if sg.R != nil {
			val := Eval(sg.R, m, map[uint32]uint64{})
			e.addPC(st.Eq(sg.R, st.BV(val, 32)))
			if sg.R.Op == OpVar {
				e.bound[sg.R.Name] = val
			}
			b.WriteRune(rune(int32(val)))
		} else {
			b.WriteString(sg.S)
		}
	}
	str := b.String()
	lo := geti(1, 0)
	hi := geti(2, len(str))
	if lo < 0 || lo > hi || hi > len(str) {
		e.rtPanic(in, fmt.Sprintf("slice bounds out of range [%d:%d] with length %d", lo, hi, len(str)))
	}
	return str[lo:hi]
}

// ---- type assertions, ranges ----

func (e *Engine) typeAssert(in *ssa.TypeAssert, x Value) Value {
	ifc, _ := x.(*Iface)
	ok := false
	var val Value
	if ifc != nil {
		if types.IsInterface(in.AssertedType) {
			if nat, isNat := ifc.V.(*Native); isNat {
				ok = nat.Kind == "error" && in.AssertedType.String() == "error"
			} else {
				ok = types.Implements(ifc.T, in.AssertedType.Underlying().(*types.Interface))
			}
			val = ifc
		} else {
			ok = types.Identical(ifc.T, in.AssertedType)
			val = ifc.V
		}
	}
	if in.CommaOk {
		if !ok {
			return Tuple{e.zero(in.AssertedType), false}
		}
		return Tuple{val, true}
	}
	if !ok {
		panic(&goPanic{msg: "interface conversion: wrong dynamic type", pos: e.pos(in), rt: true})
	}
	return val
}

func (e *Engine) mkRange(in *ssa.Range, x Value) Value {
	switch xx := x.(type) {
	case string, *Rope:
		return &IterV{Items: items(xx)}
	case *MapV:
		it := &IterV{M: xx}
		if xx != nil {
			it.Keys = append(it.Keys, xx.Order...)
		}
		e.mapRanges++
		if len(it.Keys) >= 2 && len(it.Keys) <= 4 && e.envGet("maporder") == "sym" {
			// Go's map iteration order is unspecified: explore every permutation
			for i := 0; i < len(it.Keys)-1; i++ {
				e.permSeq++
				v := e.symVar(fmt.Sprintf("maporder_%d", e.permSeq), 8)
				n := len(it.Keys) - i
				e.assume(e.st.Lt(v, e.st.BV(uint64(n), 8), false))
				k := int(e.concretize(v))
				it.Keys[i], it.Keys[i+k] = it.Keys[i+k], it.Keys[i]
			}
		}
		return it
	}
	panic(pathEnd{"unsupported", fmt.Sprintf("range over %T", x)})
}

func (e *Engine) next(in *ssa.Next, it *IterV) Value {
	if in.IsString {
		if it.I >= len(it.Items) {
			return Tuple{false, int64(0), int64(0)}
		}
		item := it.Items[it.I]
		it.I++
		off := it.Off
		switch {
		case item.Q != nil:
			panic(pathEnd{"unsupported", "range over a string containing Quote(symbolic)"})
		case item.Raw != "":
			it.Off++
			return Tuple{true, int64(off), int64(0xFFFD)}
		}
		switch r := item.R.(type) {
		case int64:
			it.Off += len(string(rune(r)))
			return Tuple{true, int64(off), r}
		case *Term:
			// byte offsets after a symbolic rune are not tracked; poison the offset
			it.Off += 1 << 40
			return Tuple{true, int64(off), r}
		}
	}
	for it.I < len(it.Keys) {
		k := it.Keys[it.I]
		it.I++
		if ent, ok := it.M.M[k]; ok {
			return Tuple{true, ent.K, e.copyVal(ent.V)}
		}
	}
	return Tuple{false, nil, nil}
}

// ---- binary operations ----

func isNilish(v Value) bool {
	switch x := v.(type) {
	case nil:
		return true
	case *Cell:
		return x == nil
	case *SliceV:
		return x.IsNil()
	case *MapV:
		return x == nil
	case *Closure:
		return x == nil
	case *Iface:
		return x == nil
	}
	return false
}

// valueEq compares two values of the same type; result bool or *Term.
func (e *Engine) valueEq(x, y Value) Value {
	switch a := x.(type) {
	case nil:
		return isNilish(y)
	case bool:
		switch b := y.(type) {
		case bool:
			return a == b
		case *Term:
			return e.st.Eq(e.st.Bool(a), b)
		}
	case int64:
		switch b := y.(type) {
		case int64:
			return a == b
		case *Term:
			return e.st.Eq(e.st.BV(uint64(a), b.W), b)
		}
	case float64:
		return a == y.(float64)
	case *Term:
		switch b := y.(type) {
		case *Term:
			return e.st.Eq(a, b)
		case int64:
			return e.st.Eq(a, e.st.BV(uint64(b), a.W))
		case bool:
			return e.st.Eq(a, e.st.Bool(b))
		}
	case string, *Rope:
		return e.strEq(x, y)
	case *Cell:
		b, _ := y.(*Cell)
		return a == b
	case *SliceV:
		return a.IsNil() && isNilish(y)
	case *MapV:
		b, _ := y.(*MapV)
		return a == b
	case *Closure:
		b, _ := y.(*Closure)
		return a == b
	case *Iface:
		b, _ := y.(*Iface)
		if a == nil || b == nil {
			return a == b
		}
		if !types.Identical(a.T, b.T) {
			return false
		}
		return e.valueEq(a.V, b.V)
	case *StructV:
		b := y.(*StructV)
		res := e.st.True
		for i := range a.F {
			r := e.valueEq(a.F[i].V, b.F[i].V)
			res = e.st.And(res, e.boolTerm(r))
		}
		if res.IsConst() {
			return res.K != 0
		}
		return res
	case *Native:
		b, _ := y.(*Native)
		return a == b
	}
	panic(unsupported(fmt.Sprintf("equality of %T and %T", x, y)))
}

func (e *Engine) notV(v Value) Value {
	switch c := v.(type) {
	case bool:
		return !c
	case *Term:
		return e.st.Not(c)
	}
	panic("notV")
}

func (e *Engine) binop(in ssa.Instruction, op token.Token, x, y Value, tx, ty types.Type) Value {
	switch op {
	case token.EQL:
		return e.valueEq(x, y)
	case token.NEQ:
		return e.notV(e.valueEq(x, y))
	}
	// strings
	switch sx := x.(type) {
	case string:
		if sy, ok := y.(string); ok {
			switch op {
			case token.ADD:
				return sx + sy
			case token.LSS:
				return sx < sy
			case token.LEQ:
				return sx <= sy
			case token.GTR:
				return sx > sy
			case token.GEQ:
				return sx >= sy
			}
		}
		if op == token.ADD {
			return concatStr(x, y)
		}
		panic(pathEnd{"unsupported", "string comparison on symbolic string"})
	case *Rope:
		if op == token.ADD {
			return concatStr(x, y)
		}
		panic(pathEnd{"unsupported", "string comparison on symbolic string"})
	case float64:
		fy := y.(float64)
		switch op {
		case token.ADD:
			return sx + fy
		case token.SUB:
			return sx - fy
		case token.MUL:
			return sx * fy
		case token.QUO:
			return sx / fy
		case token.LSS:
			return sx < fy
		case token.LEQ:
			return sx <= fy
		case token.GTR:
			return sx > fy
		case token.GEQ:
			return sx >= fy
		}
	}
	w, signed := width(tx)
	if w == 0 {
		panic(pathEnd{"unsupported", fmt.Sprintf("binop %s on %s", op, tx)})
	}
	xc, xConc := x.(int64)
	yc, yConc := y.(int64)
	if xConc && yConc {
		return e.concBin(in, op, xc, yc, w, signed, ty)
	}
	st := e.st
	xt := e.intTerm(x, w)
	switch op {
	case token.SHL, token.SHR:
		wy, sy := width(ty)
		var ytm *Term
		if yConc {
			if yc < 0 {
				e.rtPanic(in, "negative shift amount")
			}
			if yc >= int64(w) {
				yc = int64(w)
			}
			ytm = st.BV(uint64(yc), w)
		} else {
			yt := y.(*Term)
			if sy {
				if e.decide(st.Lt(yt, st.BV(0, wy), true), "shift<0") {
					e.rtPanic(in, "negative shift amount")
				}
			}
			if wy > w {
				big := st.Not(st.Lt(yt, st.BV(uint64(w), wy), false))
				ytm = st.Ite(big, st.BV(uint64(w), w), st.Resize(yt, w, false))
			} else {
				ytm = st.Resize(yt, w, false)
			}
		}
		if op == token.SHL {
			return st.Bin(OpShl, xt, ytm)
		}
		if signed {
			return st.Bin(OpAShr, xt, ytm)
		}
		return st.Bin(OpLShr, xt, ytm)
	}
	yt := e.intTerm(y, w)
	switch op {
	case token.ADD:
		return st.Bin(OpAdd, xt, yt)
	case token.SUB:
		return st.Bin(OpSub, xt, yt)
	case token.MUL:
		return st.Bin(OpMul, xt, yt)
	case token.QUO, token.REM:
		if e.decideV(st.Eq(yt, st.BV(0, w)), "div0") {
			e.rtPanic(in, "integer divide by zero")
		}
		switch {
		case op == token.QUO && signed:
			return st.Bin(OpSDiv, xt, yt)
		case op == token.QUO:
			return st.Bin(OpUDiv, xt, yt)
		case signed:
			return st.Bin(OpSRem, xt, yt)
		}
		return st.Bin(OpURem, xt, yt)
	case token.AND:
		return st.Bin(OpBAnd, xt, yt)
	case token.OR:
		return st.Bin(OpBOr, xt, yt)
	case token.XOR:
		return st.Bin(OpBXor, xt, yt)
	case token.AND_NOT:
		return st.Bin(OpBAnd, xt, st.BNot(yt))
	case token.LSS:
		return st.Lt(xt, yt, signed)
	case token.LEQ:
		return st.Le(xt, yt, signed)
	case token.GTR:
		return st.Gt(xt, yt, signed)
	case token.GEQ:
		return st.Ge(xt, yt, signed)
	}
	panic(pathEnd{"unsupported", "binop " + op.String()})
}

func (e *Engine) decideV(t *Term, tag string) bool {
	if t.IsConst() {
		return t.K != 0
	}
	return e.decide(t, tag)
}

func (e *Engine) intTerm(v Value, w uint8) *Term {
	switch x := v.(type) {
	case int64:
		return e.st.BV(uint64(x), w)
	case *Term:
		if x.W != w {
			panic(fmt.Sprintf("intTerm width %d want %d: %s", x.W, w, x))
		}
		return x
	}
	panic(unsupported(fmt.Sprintf("integer term of %T", v)))
}

func (e *Engine) concBin(in ssa.Instruction, op token.Token, a, b int64, w uint8, signed bool, ty types.Type) Value {
	ua, ub := uint64(a), uint64(b)
	switch op {
	case token.ADD:
		return norm(a+b, w, signed)
	case token.SUB:
		return norm(a-b, w, signed)
	case token.MUL:
		return norm(a*b, w, signed)
	case token.QUO:
		if b == 0 {
			e.rtPanic(in, "integer divide by zero")
		}
		if signed {
			if b == -1 {
				return norm(-a, w, signed)
			}
			return norm(a/b, w, signed)
		}
		return norm(int64(ua/ub), w, signed)
	case token.REM:
		if b == 0 {
			e.rtPanic(in, "integer divide by zero")
		}
		if signed {
			if b == -1 {
				return int64(0)
			}
			return norm(a%b, w, signed)
		}
		return norm(int64(ua%ub), w, signed)
	case token.AND:
		return a & b
	case token.OR:
		return a | b
	case token.XOR:
		return norm(a^b, w, signed)
	case token.AND_NOT:
		return a &^ b
	case token.SHL:
		_, sy := width(ty)
		if sy && b < 0 {
			e.rtPanic(in, "negative shift amount")
		}
		if ub >= uint64(w) {
			return int64(0)
		}
		return norm(int64(ua<<ub), w, signed)
	case token.SHR:
		_, sy := width(ty)
		if sy && b < 0 {
			e.rtPanic(in, "negative shift amount")
		}
		if signed {
			if ub >= 64 {
				ub = 63
			}
			return a >> ub
		}
		if ub >= uint64(w) {
			return int64(0)
		}
		return norm(int64((ua&mask(w))>>ub), w, signed)
	case token.LSS:
		if signed {
			return a < b
		}
		return ua < ub
	case token.LEQ:
		if signed {
			return a <= b
		}
		return ua <= ub
	case token.GTR:
		if signed {
			return a > b
		}
		return ua > ub
	case token.GEQ:
		if signed {
			return a >= b
		}
		return ua >= ub
	}
	panic(pathEnd{"unsupported", "binop " + op.String()})
}

// ---- conversions ----

func (e *Engine) convert(in ssa.Instruction, x Value, from, to types.Type) Value {
	fu, tu := from.Underlying(), to.Underlying()
	fw, fs := width(from)
	tw, ts := width(to)
	// int -> int
	if fw != 0 && tw != 0 {
		switch c := x.(type) {
		case int64:
			return norm(c, tw, ts)
		case *Term:
			return e.st.Resize(c, tw, fs)
		}
	}
	fb, _ := fu.(*types.Basic)
	tb, _ := tu.(*types.Basic)
	isStr := func(b *types.Basic) bool { return b != nil && b.Info()&types.IsString != 0 }
	isFloat := func(b *types.Basic) bool { return b != nil && b.Info()&types.IsFloat != 0 }
	switch {
	case fw != 0 && isStr(tb): // string(rune)
		switch c := x.(type) {
		case int64:
			if c < 0 || c > 0x10FFFF {
				return "�"
			}
			return string(rune(c))
		case *Term:
			r := e.st.Resize(c, 32, fs)
			if c.W > 32 {
				// out-of-range wide values are invalid runes
				inRange := e.st.And(e.st.Le(e.st.BV(0, c.W), c, fs), e.st.Le(c, e.st.BV(0x10FFFF, c.W), fs))
				if !e.decideV(inRange, "string(int)") {
					return "�"
				}
			}
			return mkString([]Seg{{R: e.validRune(r)}})
		}
	case isStr(fb) && isStr(tb):
		return x
	case isStr(fb):
		if sl, ok := tu.(*types.Slice); ok {
			ew, _ := width(sl.Elem())
			if ew == 32 { // []rune(s)
				rs := e.runesOf(x)
				cells := make([]*Cell, len(rs))
				for i, r := range rs {
					cells[i] = e.newCell(r)
				}
				return &SliceV{B: &Backing{Cells: cells, Elem: sl.Elem()}, Len: len(rs), Cap: len(rs)}
			}
			if ew == 8 { // []byte(s)
				switch s := x.(type) {
				case string:
					cells := make([]*Cell, len(s))
					for i := 0; i < len(s); i++ {
						cells[i] = e.newCell(int64(s[i]))
					}
					return &SliceV{B: &Backing{Cells: cells, Elem: sl.Elem()}, Len: len(s), Cap: len(s)}
				case *Rope:
					return &SliceV{B: &Backing{Rope: s, Elem: sl.Elem()}, Len: -1, Cap: -1}
				}
			}
		}
	case isStr(tb):
		if sl, ok := fu.(*types.Slice); ok {
			sv := x.(*SliceV)
			ew, _ := width(sl.Elem())
			if sv.B != nil && sv.B.Rope != nil {
				return sv.B.Rope.value()
			}
			vals := make([]Value, sv.Len)
			for i := 0; i < sv.Len; i++ {
				vals[i] = sv.B.cell(e, sv.Off+i).V
			}
			if ew == 32 {
				return e.stringOfRunes(vals)
			}
			if ew == 8 {
				bs := make([]byte, len(vals))
				for i, v := range vals {
					c, ok := v.(int64)
					if !ok {
						panic(pathEnd{"unsupported", "string([]byte) with symbolic bytes"})
					}
					bs[i] = byte(c)
				}
				return string(bs)
			}
		}
	case fw != 0 && isFloat(tb):
		c, ok := x.(int64)
		if !ok {
			panic(pathEnd{"unsupported", "symbolic int to float"})
		}
		if fs {
			return float64(c)
		}
		return float64(uint64(c))
	case isFloat(fb) && tw != 0:
		return norm(int64(x.(float64)), tw, ts)
	case isFloat(fb) && isFloat(tb):
		if tb.Kind() == types.Float32 {
			return float64(float32(x.(float64)))
		}
		return x
	}
	if _, ok := tu.(*types.Pointer); ok {
		return x
	}
	if tb != nil && tb.Kind() == types.UnsafePointer {
		return x
	}
	panic(pathEnd{"unsupported", fmt.Sprintf("conversion %s -> %s at %s", from, to, e.pos(in))})
}

var _ = math.MaxInt32
