package symx

import (
	"fmt"
	"go/types"
	"strings"

	"golang.org/x/tools/go/ssa"
)

// Nondeterministic environment for harnesses that run a program's main (C18): flags, files
// and the front-end/generator entry points are stubs whose outcome (success or error) is a
// fresh symbolic boolean per call. Everything here is part of the claim of the harness that
// enables it and is listed in the evidence (stubs_hit).

func (e *Engine) envGet(key string) Value {
	if v, ok := e.env[key]; ok {
		return v
	}
	return ""
}

// faultPoint forks on a fresh symbolic boolean; on the "fault" side records the first fault.
func (e *Engine) faultPoint(name string) bool {
	e.faultSeq[name]++
	v := e.symVar(fmt.Sprintf("fault_%s_%d", name, e.faultSeq[name]), 0)
	if e.decide(v, "fault") {
		if e.envGet("fault") == "" {
			e.env["fault"] = name
		}
		e.env["faults"] = e.showStr(e.envGet("faults")) + name + ";"
		return true
	}
	return false
}

// choicePoint forks on a fresh symbolic boolean that stands for a fact about the environment
// (not a fault): whether a file exists, is regular, is newer than another.
func (e *Engine) choicePoint(name string) bool {
	e.faultSeq[name]++
	v := e.symVar(fmt.Sprintf("env_%s_%d", name, e.faultSeq[name]), 0)
	return e.decide(v, "env")
}

// opaqueErrClass marks a stub error whose classification by errors.As / errors.Is is a
// nondeterministic fact of the environment.
const opaqueErrClass = "opaque-error-class"

func isOpaqueErr(n *Native) bool {
	c, ok := n.Data.(string)
	return ok && c == opaqueErrClass
}

func nativeErr(msg string) Value { return &Iface{T: errType, V: &Native{Kind: "error", Msg: msg}} }

func (e *Engine) fileToken(name string) *Cell {
	c := e.newCell(&Native{Kind: "file", Data: name})
	return c
}

func fileName(v Value) string {
	if ifc, ok := v.(*Iface); ok && ifc != nil {
		v = ifc.V
	}
	if c, ok := v.(*Cell); ok && c != nil {
		if n, ok := c.V.(*Native); ok {
			switch n.Kind {
			case "file":
				return n.Data.(string)
			case "bufio":
				return "buffered:" + fileName(n.Data.(Value))
			}
		}
	}
	return "<nil>"
}

// stdFile returns the token for os.Stdin/Stdout/Stderr.
func (e *Engine) stdFile(name string) *Cell {
	key := "os." + name
	if c, ok := e.natives[key].(*Cell); ok {
		return c
	}
	c := e.fileToken("<" + strings.ToLower(name) + ">")
	e.natives[key] = c
	return c
}

// fieldByName reads field `name` of the struct pointed to by ptr (type t = pointer to named struct).
func (e *Engine) fieldByName(ptr Value, t types.Type, name string) (Value, bool) {
	c, _ := ptr.(*Cell)
	if c == nil {
		return nil, false
	}
	pt, ok := t.Underlying().(*types.Pointer)
	if !ok {
		return nil, false
	}
	st, ok := pt.Elem().Underlying().(*types.Struct)
	if !ok {
		return nil, false
	}
	sv, ok := c.V.(*StructV)
	if !ok {
		return nil, false
	}
	for i := 0; i < st.NumFields(); i++ {
		f := st.Field(i)
		if f.Name() == name {
			return sv.F[i].V, true
		}
		if f.Embedded() {
			// embedded pointer or struct: search one level down
			if v, ok := e.fieldByName(sv.F[i].V, f.Type(), name); ok {
				return v, true
			}
		}
	}
	return nil, false
}

func boolStr(v Value) Value {
	switch b := v.(type) {
	case bool:
		if b {
			return "true"
		}
		return "false"
	}
	return v
}

func init() {
	env := map[string]stubFn{
		rtPkg + "EnvSet": func(e *Engine, _ *ssa.Function, a []Value) Value { e.env[a[0].(string)] = a[1]; return nil },
		// EnvSetBool stores a (possibly symbolic) boolean, e.g. the task order of a WaitGroup
		rtPkg + "EnvSetBool": func(e *Engine, _ *ssa.Function, a []Value) Value { e.env[a[0].(string)] = a[1]; return nil },
		rtPkg + "EnvGet": func(e *Engine, _ *ssa.Function, a []Value) Value { return e.envGet(a[0].(string)) },
		rtPkg + "EnvInt": func(e *Engine, _ *ssa.Function, a []Value) Value {
			if v, ok := e.envGet(a[0].(string)).(int64); ok {
				return v
			}
			return int64(0)
		},
		rtPkg + "EnvBool": func(e *Engine, _ *ssa.Function, a []Value) Value {
			v := e.envGet(a[0].(string))
			if s, ok := v.(string); ok && s == "" {
				return false
			}
			return v
		},
		"flag.Parse": func(e *Engine, _ *ssa.Function, a []Value) Value { return nil },
		"flag.NArg": func(e *Engine, _ *ssa.Function, a []Value) Value {
			if e.envGet("args") == "" {
				return int64(0)
			}
			return int64(1)
		},
		"flag.Arg": func(e *Engine, _ *ssa.Function, a []Value) Value {
			if i, _ := a[0].(int64); i == 0 {
				return e.envGet("args")
			}
			return ""
		},
		"flag.Bool":   func(e *Engine, _ *ssa.Function, a []Value) Value { return e.newCell(a[1]) },
		"flag.String": func(e *Engine, _ *ssa.Function, a []Value) Value { return e.newCell(a[1]) },
		"flag.Int":    func(e *Engine, _ *ssa.Function, a []Value) Value { return e.newCell(a[1]) },
		"os.Open": func(e *Engine, _ *ssa.Function, a []Value) Value {
			name := e.showStr(a[0])
			e.env["open.name"] = name
			if e.faultPoint("open") {
				return Tuple{(*Cell)(nil), nativeErr("open " + name + ": no such file or directory")}
			}
			return Tuple{e.fileToken(name), (*Iface)(nil)}
		},
		"os.OpenFile": func(e *Engine, _ *ssa.Function, a []Value) Value {
			name := e.showStr(a[0])
			e.env["openfile.name"] = name
			e.env["openfile.flags"] = a[1]
			if e.faultPoint("openfile") {
				return Tuple{(*Cell)(nil), nativeErr("open " + name + ": permission denied")}
			}
			return Tuple{e.fileToken(name), (*Iface)(nil)}
		},
		"(*os.File).Close": func(e *Engine, _ *ssa.Function, a []Value) Value {
			e.env["closed"] = e.showStr(e.envGet("closed")) + fileName(a[0]) + ";"
			if e.faultPoint("close") {
				return nativeErr("close " + fileName(a[0]) + ": input/output error")
			}
			return (*Iface)(nil)
		},
		"os.Stat": func(e *Engine, fn *ssa.Function, a []Value) Value {
			name := e.showStr(a[0])
			if e.choicePoint("stat_fails") {
				return Tuple{(*Iface)(nil), nativeErr("stat " + name + ": no such file or directory")}
			}
			return Tuple{&Iface{T: fn.Signature.Results().At(0).Type(), V: &Native{Kind: "fileinfo", Data: name}}, (*Iface)(nil)}
		},
		"(io/fs.FileMode).IsRegular": func(e *Engine, _ *ssa.Function, a []Value) Value { return !e.choicePoint("notregular") },
		"(io/fs.FileMode).IsDir":     func(e *Engine, _ *ssa.Function, a []Value) Value { return e.choicePoint("isdir") },
		"(time.Time).After":          func(e *Engine, _ *ssa.Function, a []Value) Value { return e.choicePoint("newer") },
		"(time.Time).Before":         func(e *Engine, _ *ssa.Function, a []Value) Value { return e.choicePoint("older") },
		"(*os.File).Truncate": func(e *Engine, _ *ssa.Function, a []Value) Value {
			e.env["truncated"] = fileName(a[0])
			return (*Iface)(nil)
		},
		"bufio.NewWriterSize": func(e *Engine, _ *ssa.Function, a []Value) Value {
			return e.newCell(&Native{Kind: "bufio", Data: a[0]})
		},
		"bufio.NewWriter": func(e *Engine, _ *ssa.Function, a []Value) Value {
			return e.newCell(&Native{Kind: "bufio", Data: a[0]})
		},
		"(*bufio.Writer).Flush": func(e *Engine, _ *ssa.Function, a []Value) Value {
			name := fileName(a[0])
			under := strings.TrimPrefix(name, "buffered:")
			if e.faultPoint("flush") {
				return nativeErr("write " + under + ": no space left on device")
			}
			// what was written into the buffer has now reached the underlying writer
			if e.envGet("compiled_to") == name {
				e.env["compiled_to"] = under
			}
			return (*Iface)(nil)
		},
		"io.ReadAll": func(e *Engine, _ *ssa.Function, a []Value) Value {
			e.env["read_from"] = fileName(a[0])
			if e.faultPoint("read") {
				return Tuple{&SliceV{}, nativeErr("read " + fileName(a[0]) + ": is a directory")}
			}
			s := "GRAMMAR"
			cells := make([]*Cell, len(s))
			for i := 0; i < len(s); i++ {
				cells[i] = e.newCell(int64(s[i]))
			}
			return Tuple{&SliceV{B: &Backing{Cells: cells, Elem: types.Typ[types.Byte]}, Len: len(s), Cap: len(s)}, (*Iface)(nil)}
		},
	}
	for k, v := range env {
		stubs[k] = v
	}
}

// MainStubs are the stubs for the C18 harness only: the front end and the generator are
// replaced by nondeterministic outcomes (assumption A-COMPILE: Compile returns nil only after
// the formatted parser was written to out).
func MainStubs(pegPkg string) map[string]stubFn {
	peg := "(*" + pegPkg + ".Peg[U])."
	m := mainStubs(pegPkg, peg)
	// methods declared with a blank type parameter print as Peg[_]
	for k, v := range mainStubs(pegPkg, "(*"+pegPkg+".Peg[_]).") {
		m[k] = v
	}
	m["(*"+pegPkg+".tokens[_]).Print"] = m["(*"+pegPkg+".tokens[U]).Print"]
	return m
}

func mainStubs(pegPkg, peg string) map[string]stubFn {
	return map[string]stubFn{
		peg + "Init":                        func(e *Engine, _ *ssa.Function, a []Value) Value { return (*Iface)(nil) },
		peg + "Execute":                     func(e *Engine, _ *ssa.Function, a []Value) Value { e.env["executed"] = "true"; return nil },
		peg + "PrintSyntaxTree":             func(e *Engine, _ *ssa.Function, a []Value) Value { return nil },
		"(*" + pegPkg + ".tokens[U]).Print": func(e *Engine, _ *ssa.Function, a []Value) Value { return nil },
		peg + "Parse": func(e *Engine, _ *ssa.Function, a []Value) Value {
			if e.faultPoint("parse") {
				return nativeErr("parse error near Grammar (line 1 symbol 1 - line 1 symbol 1)")
			}
			e.env["parsed"] = "true"
			return (*Iface)(nil)
		},
		"(*" + pegPkg + "/tree.Tree).Compile": func(e *Engine, fn *ssa.Function, a []Value) Value {
			if v, ok := e.fieldByName(a[0], fn.Signature.Recv().Type(), "Strict"); ok {
				e.env["compile.strict"] = v
			}
			e.env["compile.file"] = a[1]
			if e.faultPoint("compile") {
				// The error the real Compile returns is of no fixed class: a caller that
				// classifies it (errors.As / errors.Is) gets either answer (choice point
				// "errclass"), so that a main which lets some class of Compile errors
				// through to exit 0 is explored; such a path is only reported after the
				// real binary reproduced it (realisations of the fault in replayC18).
				return &Iface{T: errType, V: &Native{Kind: "error", Msg: "compile: error", Data: opaqueErrClass}}
			}
			e.env["compiled_to"] = fileName(a[3])
			e.env["compile_calls"] = e.showStr(e.envGet("compile_calls")) + "x"
			return (*Iface)(nil)
		},
		pegPkg + "/tree.New": func(e *Engine, fn *ssa.Function, a []Value) Value {
			e.env["new.inline"], e.env["new.switch"], e.env["new.noast"] = a[0], a[1], a[2]
			return e.callReal(fn, a)
		},
	}
}

// CompileStubs replace the text-emission back end of (*tree.Tree).Compile (text/template,
// go/parser, go/printer): the emitted text is not the subject of the analyses' properties
// (C15, C09). They succeed and write nothing.
func CompileStubs() map[string]stubFn {
	dummy := func(e *Engine) Value { return e.newCell(&Native{Kind: "opaque"}) }
	return map[string]stubFn{
		"text/template.New":                 func(e *Engine, _ *ssa.Function, a []Value) Value { return dummy(e) },
		"(*text/template.Template).Funcs":   func(e *Engine, _ *ssa.Function, a []Value) Value { return a[0] },
		"(*text/template.Template).Parse":   func(e *Engine, _ *ssa.Function, a []Value) Value { return Tuple{a[0], (*Iface)(nil)} },
		"(*text/template.Template).Execute": func(e *Engine, _ *ssa.Function, a []Value) Value { return (*Iface)(nil) },
		"go/token.NewFileSet":               func(e *Engine, _ *ssa.Function, a []Value) Value { return dummy(e) },
		"go/parser.ParseFile":               func(e *Engine, _ *ssa.Function, a []Value) Value { return Tuple{dummy(e), (*Iface)(nil)} },
		// the printer and WriteTo hand one chunk of (unmodelled) text to the destination and
		// return the destination's error
		"(*go/printer.Config).Fprint": func(e *Engine, _ *ssa.Function, a []Value) Value {
			r := e.writeTo(a[1], "<formatted parser>")
			return r.(Tuple)[1]
		},
		"(*bytes.Buffer).WriteTo": func(e *Engine, _ *ssa.Function, a []Value) Value {
			return e.writeTo(a[1], "<buffer>")
		},
	}
}
