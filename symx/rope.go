package symx

import (
	"strings"
	"unicode/utf8"
)

// Rope is a string with symbolic parts. Segments: concrete bytes, one symbolic rune (a
// 32-bit term known to be a valid Unicode scalar value), or Quote(rope) — the opaque result of
// strconv.Quote on a symbolic string (assumption A-QUOTE: Quote is a function of its argument).
type Rope struct {
	Segs []Seg
}

type Seg struct {
	S string // concrete bytes (if R == nil && Q == nil)
	R *Term  // symbolic rune
	Q *Rope  // quoted rope
}

type ropeItem struct {
	R   Value // int64 (concrete rune) or *Term
	Q   *Rope
	Raw string // concrete bytes that are not valid UTF-8 (kept verbatim)
}

// mkString normalises segments into string (all concrete) or *Rope.
func mkString(segs []Seg) Value {
	var out []Seg
	for _, s := range segs {
		if s.R == nil && s.Q == nil {
			if s.S == "" {
				continue
			}
			if n := len(out); n > 0 && out[n-1].R == nil && out[n-1].Q == nil {
				out[n-1].S += s.S
				continue
			}
		}
		if s.R != nil && s.R.IsConst() {
			c := string(rune(int32(s.R.K)))
			if n := len(out); n > 0 && out[n-1].R == nil && out[n-1].Q == nil {
				out[n-1].S += c
			} else {
				out = append(out, Seg{S: c})
			}
			continue
		}
		out = append(out, s)
	}
	if len(out) == 0 {
		return ""
	}
	if len(out) == 1 && out[0].R == nil && out[0].Q == nil {
		return out[0].S
	}
	return &Rope{Segs: out}
}

func segsOf(v Value) []Seg {
	switch x := v.(type) {
	case string:
		if x == "" {
			return nil
		}
		return []Seg{{S: x}}
	case *Rope:
		return x.Segs
	}
	panic(unsupported("string value expected"))
}

func concatStr(a, b Value) Value {
	sa, sb := segsOf(a), segsOf(b)
	segs := make([]Seg, 0, len(sa)+len(sb))
	segs = append(segs, sa...)
	segs = append(segs, sb...)
	return mkString(segs)
}

// items splits a string value into rune / quote items.
func items(v Value) []ropeItem {
	var out []ropeItem
	for _, s := range segsOf(v) {
		switch {
		case s.R != nil:
			out = append(out, ropeItem{R: s.R})
		case s.Q != nil:
			out = append(out, ropeItem{Q: s.Q})
		default:
			str := s.S
			for len(str) > 0 {
				r, n := utf8.DecodeRuneInString(str)
				if r == utf8.RuneError && n <= 1 {
					out = append(out, ropeItem{Raw: str[:1]})
				} else {
					out = append(out, ropeItem{R: int64(r)})
				}
				str = str[n:]
			}
		}
	}
	return out
}

// utf8Len is the encoded length of a symbolic valid rune as a 64-bit term.
func (e *Engine) utf8Len(r *Term) *Term {
	st := e.st
	c := func(k uint64) *Term { return st.BV(k, 32) }
	n := func(k uint64) *Term { return st.BV(k, 64) }
	return st.Ite(st.Lt(r, c(0x80), true), n(1),
		st.Ite(st.Lt(r, c(0x800), true), n(2),
			st.Ite(st.Lt(r, c(0x10000), true), n(3), n(4))))
}

// strLen returns len(s) as int64 or a 64-bit term.
func (e *Engine) strLen(v Value) Value {
	switch x := v.(type) {
	case string:
		return int64(len(x))
	case *Rope:
		conc := 0
		var sym *Term
		for _, s := range x.Segs {
			switch {
			case s.R != nil:
				l := e.utf8Len(s.R)
				if sym == nil {
					sym = l
				} else {
					sym = e.st.Bin(OpAdd, sym, l)
				}
			case s.Q != nil:
				panic(unsupported("len of a string containing Quote(symbolic)"))
			default:
				conc += len(s.S)
			}
		}
		if sym == nil {
			return int64(conc)
		}
		return e.st.Bin(OpAdd, sym, e.st.BV(uint64(conc), 64))
	}
	panic(unsupported("len of non-string"))
}

// strEq returns the equality of two string values as bool or *Term.
func (e *Engine) strEq(a, b Value) Value {
	if len(e.bound) > 0 {
		a, b = e.resolve(a), e.resolve(b)
	}
	if sa, ok := a.(string); ok {
		if sb, ok := b.(string); ok {
			return sa == sb
		}
	}
	ia, ib := items(a), items(b)
	if len(ia) != len(ib) {
		// Different item counts. Every rune item is exactly one rune; a Quote item is an opaque
		// string of unknown length that begins with '"'. Walk both sides while they are aligned:
		// a definite difference at an aligned place, or one side ending first, proves the strings
		// different; anything else (alignment lost inside a Quote) cannot be decided here.
		for i := 0; ; i++ {
			if i >= len(ia) || i >= len(ib) {
				return false // aligned so far and one side has at least one more character
			}
			x, y := ia[i], ib[i]
			switch {
			case x.Q != nil && y.Q != nil:
				if eq, ok := e.strEq(x.Q.value(), y.Q.value()).(bool); ok && eq {
					continue // same argument, same output: still aligned
				}
				panic(unsupported("string equality with Quote segments of different shape"))
			case x.Q != nil || y.Q != nil:
				r := y
				if y.Q != nil {
					r = x
				}
				if r.Raw != "" {
					return false
				}
				if c, ok := r.R.(int64); ok && c != '"' {
					return false // a quoted string starts with '"'
				}
				panic(unsupported("string equality Quote vs rune"))
			case x.Raw != "" || y.Raw != "":
				if x.Raw != y.Raw {
					return false
				}
			default:
				cx, okx := x.R.(int64)
				cy, oky := y.R.(int64)
				if okx && oky && cx != cy {
					return false
				}
				if !(okx && oky) {
					// a symbolic rune: equal or not, the alignment is kept (one rune either way)
					continue
				}
			}
		}
	}
	res := e.st.True
	for i := range ia {
		x, y := ia[i], ib[i]
		switch {
		case x.Q != nil && y.Q != nil:
			r := e.strEq(x.Q.value(), y.Q.value())
			res = e.st.And(res, e.boolTerm(r))
		case x.Q != nil || y.Q != nil:
			panic(unsupported("string equality Quote vs rune"))
		case x.Raw != "" || y.Raw != "":
			if x.Raw != y.Raw {
				if x.Raw != "" && y.Raw != "" {
					return false
				}
				// raw invalid byte vs a rune: a valid rune never encodes to an invalid byte
				// sequence, and U+FFFD encodes to 3 bytes, not 1
				return false
			}
		default:
			res = e.st.And(res, e.st.Eq(e.runeTerm(x.R), e.runeTerm(y.R)))
		}
	}
	if res.IsConst() {
		return res.K != 0
	}
	return res
}

func (r *Rope) value() Value { return mkString(r.Segs) }

func (e *Engine) runeTerm(v Value) *Term {
	switch x := v.(type) {
	case int64:
		return e.st.BV(uint64(x), 32)
	case *Term:
		return x
	}
	panic(unsupported("rune term"))
}

func (e *Engine) boolTerm(v Value) *Term {
	switch x := v.(type) {
	case bool:
		return e.st.Bool(x)
	case *Term:
		return x
	}
	panic(unsupported("bool term"))
}

// runesOf converts a string value to the element values of []rune(s).
func (e *Engine) runesOf(v Value) []Value {
	its := items(v)
	out := make([]Value, 0, len(its))
	for _, it := range its {
		switch {
		case it.Q != nil:
			panic(unsupported("[]rune of a string containing Quote(symbolic)"))
		case it.Raw != "":
			out = append(out, int64(utf8.RuneError))
		default:
			out = append(out, it.R)
		}
	}
	return out
}

// stringOfRunes builds string([]rune).
func (e *Engine) stringOfRunes(rs []Value) Value {
	var b strings.Builder
	var segs []Seg
	flush := func() {
		if b.Len() > 0 {
			segs = append(segs, Seg{S: b.String()})
			b.Reset()
		}
	}
	for _, r := range rs {
		switch x := r.(type) {
		case int64:
			b.WriteRune(rune(x)) // invalid runes become U+FFFD, as in Go
		case *Term:
			flush()
			segs = append(segs, Seg{R: e.validRune(x)})
		default:
			panic(unsupported("string([]rune) element"))
		}
	}
	flush()
	return mkString(segs)
}

// validRune forks on whether r is a valid scalar value; invalid ones become U+FFFD (Go semantics).
func (e *Engine) validRune(r *Term) *Term {
	if e.knownValid[r] {
		return r
	}
	st := e.st
	valid := st.AndN(st.Le(st.BV(0, 32), r, true), st.Le(r, st.BV(0x10FFFF, 32), true),
		st.Not(st.And(st.Le(st.BV(0xD800, 32), r, true), st.Le(r, st.BV(0xDFFF, 32), true))))
	if e.decide(valid, "validrune") {
		return r
	}
	return st.BV(0xFFFD, 32)
}

// quoteOf models strconv.Quote.
func quoteOf(v Value, native func(string) string) Value {
	switch x := v.(type) {
	case string:
		return native(x)
	case *Rope:
		return &Rope{Segs: []Seg{{Q: x}}}
	}
	panic(unsupported("Quote of non-string"))
}

// resolve substitutes variables that a representative assignment has fixed (see ropeSlice)
// so that strings built from them become concrete again.
func (e *Engine) resolve(v Value) Value {
	r, ok := v.(*Rope)
	if !ok {
		return v
	}
	segs := make([]Seg, 0, len(r.Segs))
	for _, sg := range r.Segs {
		switch {
		case sg.R != nil:
			if val, ok := e.evalBound(sg.R); ok {
				segs = append(segs, Seg{S: string(rune(int32(val)))})
			} else {
				segs = append(segs, sg)
			}
		case sg.Q != nil:
			inner := e.resolve(sg.Q.value())
			if s, ok := inner.(string); ok {
				segs = append(segs, Seg{S: quoteNative(s)})
			} else {
				segs = append(segs, Seg{Q: inner.(*Rope)})
			}
		default:
			segs = append(segs, sg)
		}
	}
	return mkString(segs)
}

// evalBound evaluates t if all its variables are bound by a representative assignment.
func (e *Engine) evalBound(t *Term) (uint64, bool) {
	ok := true
	var check func(t *Term)
	seen := map[uint32]bool{}
	check = func(t *Term) {
		if !ok || seen[t.id] {
			return
		}
		seen[t.id] = true
		if t.Op == OpVar {
			if _, b := e.bound[t.Name]; !b {
				ok = false
			}
			return
		}
		for i := 0; i < int(t.N); i++ {
			check(t.A[i])
		}
	}
	check(t)
	if !ok {
		return 0, false
	}
	return Eval(t, e.bound, map[uint32]uint64{}), true
}
