// Package symx is a path-wise symbolic executor for go/ssa with an SMT back end.
//
// Terms: hash-consed SMT-LIB terms over Bool and fixed-width bit-vectors.
package symx

import (
	"fmt"
	"math/bits"
	"strconv"
	"strings"
)

type Op uint8

const (
	OpConst Op = iota
	OpVar
	OpNot
	OpAnd
	OpOr
	OpEq
	OpIte
	OpAdd
	OpSub
	OpMul
	OpUDiv
	OpURem
	OpSDiv
	OpSRem
	OpBAnd
	OpBOr
	OpBXor
	OpShl
	OpLShr
	OpAShr
	OpNeg
	OpBNot
	OpULt
	OpSLt
	OpZExt // K = extra bits
	OpSExt // K = extra bits
	OpExtr // K = hi<<8|lo
	OpConcat
)

var opName = [...]string{
	OpNot: "not", OpAnd: "and", OpOr: "or", OpEq: "=", OpIte: "ite",
	OpAdd: "bvadd", OpSub: "bvsub", OpMul: "bvmul", OpUDiv: "bvudiv", OpURem: "bvurem",
	OpSDiv: "bvsdiv", OpSRem: "bvsrem", OpBAnd: "bvand", OpBOr: "bvor", OpBXor: "bvxor",
	OpShl: "bvshl", OpLShr: "bvlshr", OpAShr: "bvashr", OpNeg: "bvneg", OpBNot: "bvnot",
	OpULt: "bvult", OpSLt: "bvslt", OpConcat: "concat",
}

// Term is an immutable hash-consed term. W == 0 means Bool.
type Term struct {
	Op   Op
	W    uint8
	K    uint64
	Name string
	A    [3]*Term
	N    uint8 // number of args
	id   uint32
	s    string
	st   *Store
}

func (t *Term) IsConst() bool { return t.Op == OpConst }
func (t *Term) ID() uint32    { return t.id }

type termKey struct {
	op         Op
	w          uint8
	k          uint64
	name       string
	a0, a1, a2 uint32
}

// Store owns hash-consed terms; one per worker (not goroutine safe).
type Store struct {
	tab   map[termKey]*Term
	next  uint32
	True  *Term
	False *Term
	Vars  []*Term // in creation order
	// Defs are pending (define-fun ...) lines for large shared subterms; the solver layer
	// flushes them before any command that mentions a term.
	Defs []string
}

func NewStore() *Store {
	s := &Store{tab: map[termKey]*Term{}, next: 1}
	s.True = s.mk(OpConst, 0, 1, "")
	s.False = s.mk(OpConst, 0, 0, "")
	return s
}

func (s *Store) mk(op Op, w uint8, k uint64, name string, args ...*Term) *Term {
	key := termKey{op: op, w: w, k: k, name: name}
	if len(args) > 0 {
		key.a0 = args[0].id
	}
	if len(args) > 1 {
		key.a1 = args[1].id
	}
	if len(args) > 2 {
		key.a2 = args[2].id
	}
	if t, ok := s.tab[key]; ok {
		return t
	}
	t := &Term{Op: op, W: w, K: k, Name: name, N: uint8(len(args)), id: s.next, st: s}
	s.next++
	copy(t.A[:], args)
	s.tab[key] = t
	if op == OpVar {
		s.Vars = append(s.Vars, t)
	}
	return t
}

func mask(w uint8) uint64 {
	if w >= 64 {
		return ^uint64(0)
	}
	return (uint64(1) << w) - 1
}

func (s *Store) Bool(b bool) *Term {
	if b {
		return s.True
	}
	return s.False
}

// BV makes a constant of width w from the low bits of v.
func (s *Store) BV(v uint64, w uint8) *Term { return s.mk(OpConst, w, v&mask(w), "") }

func (s *Store) Var(name string, w uint8) *Term { return s.mk(OpVar, w, 0, name) }

func signExt(v uint64, w uint8) int64 {
	if w >= 64 {
		return int64(v)
	}
	if v&(1<<(w-1)) != 0 {
		return int64(v | ^mask(w))
	}
	return int64(v)
}

func (s *Store) Not(a *Term) *Term {
	if a.Op == OpConst {
		return s.Bool(a.K == 0)
	}
	if a.Op == OpNot {
		return a.A[0]
	}
	return s.mk(OpNot, 0, 0, "", a)
}

func (s *Store) And(a, b *Term) *Term {
	if a.Op == OpConst {
		if a.K == 0 {
			return s.False
		}
		return b
	}
	if b.Op == OpConst {
		if b.K == 0 {
			return s.False
		}
		return a
	}
	if a == b {
		return a
	}
	if s.Not(a) == b {
		return s.False
	}
	return s.mk(OpAnd, 0, 0, "", a, b)
}

func (s *Store) Or(a, b *Term) *Term {
	if a.Op == OpConst {
		if a.K != 0 {
			return s.True
		}
		return b
	}
	if b.Op == OpConst {
		if b.K != 0 {
			return s.True
		}
		return a
	}
	if a == b {
		return a
	}
	if s.Not(a) == b {
		return s.True
	}
	return s.mk(OpOr, 0, 0, "", a, b)
}

func (s *Store) AndN(ts ...*Term) *Term {
	r := s.True
	for _, t := range ts {
		r = s.And(r, t)
	}
	return r
}

func (s *Store) Eq(a, b *Term) *Term {
	if a.W != b.W {
		panic(fmt.Sprintf("Eq width mismatch %d %d: %s %s", a.W, b.W, a, b))
	}
	if a == b {
		return s.True
	}
	if a.Op == OpConst && b.Op == OpConst {
		return s.Bool(a.K == b.K)
	}
	if a.W == 0 {
		if a.Op == OpConst {
			a, b = b, a
		}
		if b.Op == OpConst {
			if b.K != 0 {
				return a
			}
			return s.Not(a)
		}
	}
	// ite(c,k1,k2) == k with constants: simplify
	if b.Op == OpConst && a.Op == OpIte && a.A[1].Op == OpConst && a.A[2].Op == OpConst {
		t1, t2 := a.A[1].K == b.K, a.A[2].K == b.K
		switch {
		case t1 && t2:
			return s.True
		case t1:
			return a.A[0]
		case t2:
			return s.Not(a.A[0])
		default:
			return s.False
		}
	}
	if a.Op == OpConst || (b.Op != OpConst && a.id > b.id) {
		a, b = b, a
	}
	return s.mk(OpEq, 0, 0, "", a, b)
}

func (s *Store) Ite(c, a, b *Term) *Term {
	if a.W != b.W {
		panic("Ite width mismatch")
	}
	if c.Op == OpConst {
		if c.K != 0 {
			return a
		}
		return b
	}
	if a == b {
		return a
	}
	if a.W == 0 {
		if a.Op == OpConst && b.Op == OpConst {
			if a.K != 0 {
				return c
			}
			return s.Not(c)
		}
		if a.Op == OpConst {
			if a.K != 0 {
				return s.Or(c, b)
			}
			return s.And(s.Not(c), b)
		}
		if b.Op == OpConst {
			if b.K != 0 {
				return s.Or(s.Not(c), a)
			}
			return s.And(c, a)
		}
	}
	if c.Op == OpNot {
		return s.mk(OpIte, a.W, 0, "", c.A[0], b, a)
	}
	return s.mk(OpIte, a.W, 0, "", c, a, b)
}

func evalBin(op Op, w uint8, x, y uint64) uint64 {
	m := mask(w)
	switch op {
	case OpAdd:
		return (x + y) & m
	case OpSub:
		return (x - y) & m
	case OpMul:
		return (x * y) & m
	case OpUDiv:
		if y == 0 {
			return m
		}
		return x / y
	case OpURem:
		if y == 0 {
			return x
		}
		return x % y
	case OpSDiv:
		sx, sy := signExt(x, w), signExt(y, w)
		if sy == 0 {
			if sx < 0 {
				return 1
			}
			return m
		}
		if sy == -1 {
			return uint64(-sx) & m
		}
		return uint64(sx/sy) & m
	case OpSRem:
		sx, sy := signExt(x, w), signExt(y, w)
		if sy == 0 {
			return x
		}
		if sy == -1 {
			return 0
		}
		return uint64(sx%sy) & m
	case OpBAnd:
		return x & y
	case OpBOr:
		return x | y
	case OpBXor:
		return x ^ y
	case OpShl:
		if y >= uint64(w) {
			return 0
		}
		return (x << y) & m
	case OpLShr:
		if y >= uint64(w) {
			return 0
		}
		return x >> y
	case OpAShr:
		sx := signExt(x, w)
		if y >= uint64(w) {
			if sx < 0 {
				return m
			}
			return 0
		}
		return uint64(sx>>y) & m
	case OpULt:
		if x < y {
			return 1
		}
		return 0
	case OpSLt:
		if signExt(x, w) < signExt(y, w) {
			return 1
		}
		return 0
	}
	panic("evalBin")
}

// Bin builds a binary bit-vector operation (result width = operand width; Bool for comparisons).
func (s *Store) Bin(op Op, a, b *Term) *Term {
	if a.W != b.W || a.W == 0 {
		panic(fmt.Sprintf("Bin %s width mismatch %d %d", opName[op], a.W, b.W))
	}
	w := a.W
	rw := w
	if op == OpULt || op == OpSLt {
		rw = 0
	}
	if a.Op == OpConst && b.Op == OpConst {
		v := evalBin(op, w, a.K, b.K)
		if rw == 0 {
			return s.Bool(v != 0)
		}
		return s.BV(v, w)
	}
	switch op {
	case OpAdd, OpBOr, OpBXor:
		if a.Op == OpConst && a.K == 0 {
			return b
		}
		if b.Op == OpConst && b.K == 0 {
			return a
		}
	case OpSub, OpShl, OpLShr, OpAShr:
		if b.Op == OpConst && b.K == 0 {
			return a
		}
	case OpBAnd:
		if a.Op == OpConst && a.K == 0 || b.Op == OpConst && b.K == 0 {
			return s.BV(0, w)
		}
		if a.Op == OpConst && a.K == mask(w) {
			return b
		}
		if b.Op == OpConst && b.K == mask(w) {
			return a
		}
	case OpMul:
		if a.Op == OpConst && a.K == 1 {
			return b
		}
		if b.Op == OpConst && b.K == 1 {
			return a
		}
		if a.Op == OpConst && a.K == 0 || b.Op == OpConst && b.K == 0 {
			return s.BV(0, w)
		}
	case OpULt, OpSLt:
		if a == b {
			return s.False
		}
	}
	switch op {
	case OpAdd, OpMul, OpBAnd, OpBOr, OpBXor:
		// commutative: constants last, else by id
		if a.Op == OpConst || (b.Op != OpConst && a.id > b.id) {
			a, b = b, a
		}
	}
	return s.mk(op, rw, 0, "", a, b)
}

func (s *Store) Neg(a *Term) *Term {
	if a.Op == OpConst {
		return s.BV(-a.K, a.W)
	}
	return s.mk(OpNeg, a.W, 0, "", a)
}

func (s *Store) BNot(a *Term) *Term {
	if a.Op == OpConst {
		return s.BV(^a.K, a.W)
	}
	return s.mk(OpBNot, a.W, 0, "", a)
}

// Comparisons in canonical form (only < is primitive).
func (s *Store) Lt(a, b *Term, signed bool) *Term {
	if signed {
		return s.Bin(OpSLt, a, b)
	}
	return s.Bin(OpULt, a, b)
}
func (s *Store) Le(a, b *Term, signed bool) *Term { return s.Not(s.Lt(b, a, signed)) }
func (s *Store) Gt(a, b *Term, signed bool) *Term { return s.Lt(b, a, signed) }
func (s *Store) Ge(a, b *Term, signed bool) *Term { return s.Not(s.Lt(a, b, signed)) }

// Resize converts a to width w (sign- or zero-extending by the source signedness, or truncating).
func (s *Store) Resize(a *Term, w uint8, srcSigned bool) *Term {
	switch {
	case a.W == w:
		return a
	case a.Op == OpConst:
		if srcSigned {
			return s.BV(uint64(signExt(a.K, a.W)), w)
		}
		return s.BV(a.K, w)
	case w > a.W && srcSigned:
		return s.mk(OpSExt, w, uint64(w-a.W), "", a)
	case w > a.W:
		return s.mk(OpZExt, w, uint64(w-a.W), "", a)
	default:
		// extract of an extension of something of that width or narrower
		if (a.Op == OpZExt || a.Op == OpSExt) && a.A[0].W == w {
			return a.A[0]
		}
		return s.mk(OpExtr, w, uint64(w-1)<<8, "", a)
	}
}

func (t *Term) String() string {
	if t.s != "" {
		return t.s
	}
	var r string
	switch t.Op {
	case OpConst:
		if t.W == 0 {
			if t.K != 0 {
				r = "true"
			} else {
				r = "false"
			}
		} else {
			r = "(_ bv" + strconv.FormatUint(t.K, 10) + " " + strconv.Itoa(int(t.W)) + ")"
		}
	case OpVar:
		r = t.Name
	case OpZExt:
		r = "((_ zero_extend " + strconv.FormatUint(t.K, 10) + ") " + t.A[0].String() + ")"
	case OpSExt:
		r = "((_ sign_extend " + strconv.FormatUint(t.K, 10) + ") " + t.A[0].String() + ")"
	case OpExtr:
		r = "((_ extract " + strconv.FormatUint(t.K>>8, 10) + " " + strconv.FormatUint(t.K&0xff, 10) + ") " + t.A[0].String() + ")"
	default:
		var b strings.Builder
		b.WriteByte('(')
		b.WriteString(opName[t.Op])
		for i := 0; i < int(t.N); i++ {
			b.WriteByte(' ')
			b.WriteString(t.A[i].String())
		}
		b.WriteByte(')')
		r = b.String()
	}
	if len(r) > 160 && t.Op != OpConst && t.Op != OpVar {
		name := "$t" + strconv.FormatUint(uint64(t.id), 10)
		sort := "Bool"
		if t.W > 0 {
			sort = "(_ BitVec " + strconv.Itoa(int(t.W)) + ")"
		}
		t.st.Defs = append(t.st.Defs, "(define-fun "+name+" () "+sort+" "+r+")")
		r = name
	}
	t.s = r
	return r
}

// Eval evaluates t under a total assignment of variables (missing variables read as 0).
func Eval(t *Term, env map[string]uint64, memo map[uint32]uint64) uint64 {
	if t.Op == OpConst {
		return t.K
	}
	if v, ok := memo[t.id]; ok {
		return v
	}
	var r uint64
	b2u := func(b bool) uint64 {
		if b {
			return 1
		}
		return 0
	}
	switch t.Op {
	case OpVar:
		r = env[t.Name] & mask(t.W)
		if t.W == 0 {
			r = env[t.Name] & 1
		}
	case OpNot:
		r = 1 - Eval(t.A[0], env, memo)
	case OpAnd:
		r = Eval(t.A[0], env, memo) & Eval(t.A[1], env, memo)
	case OpOr:
		r = Eval(t.A[0], env, memo) | Eval(t.A[1], env, memo)
	case OpEq:
		r = b2u(Eval(t.A[0], env, memo) == Eval(t.A[1], env, memo))
	case OpIte:
		if Eval(t.A[0], env, memo) != 0 {
			r = Eval(t.A[1], env, memo)
		} else {
			r = Eval(t.A[2], env, memo)
		}
	case OpNeg:
		r = (-Eval(t.A[0], env, memo)) & mask(t.W)
	case OpBNot:
		r = (^Eval(t.A[0], env, memo)) & mask(t.W)
	case OpZExt:
		r = Eval(t.A[0], env, memo)
	case OpSExt:
		r = uint64(signExt(Eval(t.A[0], env, memo), t.A[0].W)) & mask(t.W)
	case OpExtr:
		hi, lo := t.K>>8, t.K&0xff
		r = (Eval(t.A[0], env, memo) >> lo) & mask(uint8(hi-lo+1))
	case OpConcat:
		r = (Eval(t.A[0], env, memo)<<t.A[1].W | Eval(t.A[1], env, memo)) & mask(t.W)
	default:
		r = evalBin(t.Op, t.A[0].W, Eval(t.A[0], env, memo), Eval(t.A[1], env, memo))
	}
	memo[t.id] = r
	return r
}

// Popcount builds the population count of a (same width result) without forking.
func (s *Store) Popcount(a *Term) *Term {
	if a.Op == OpConst {
		return s.BV(uint64(bits.OnesCount64(a.K)), a.W)
	}
	w := a.W
	sum := s.BV(0, w)
	one := s.BV(1, w)
	for i := uint8(0); i < w; i++ {
		bit := s.Bin(OpBAnd, s.Bin(OpLShr, a, s.BV(uint64(i), w)), one)
		sum = s.Bin(OpAdd, sum, bit)
	}
	return sum
}

// Conjuncts appends the top-level conjuncts of t.
func Conjuncts(t *Term, out []*Term) []*Term {
	if t.Op == OpAnd {
		out = Conjuncts(t.A[0], out)
		return Conjuncts(t.A[1], out)
	}
	return append(out, t)
}
