package symx

import (
	"fmt"
	"io"
	"os"
	"sort"
	"strings"
	"time"

	"golang.org/x/tools/go/ssa"
)

type Config struct {
	MaxSteps      int // SSA instructions per path (unwinding budget)
	MaxDepth      int // call depth
	MaxPaths      int // per harness run (decision budget); exceeded => Incomplete
	MaxConcrete   int // max feasible values when concretising a symbolic scalar
	Interpret     func(pkgPath string) bool
	SolverBinary  string
	ValidateEvery int // keep a model for every n-th completed path (0 = none)
	Deadline      time.Time
	Transcript    io.Writer         // optional SMT-LIB transcript of everything sent to the solver
	ExtraStubs    map[string]stubFn // harness-specific stubs (take precedence)
}

var debugPaths = os.Getenv("VERIF_DEBUG_PATHS") != ""

func DefaultConfig() Config {
	return Config{MaxSteps: 2_000_000, MaxDepth: 4096, MaxPaths: 2_000_000, MaxConcrete: 64, SolverBinary: "cvc5"}
}

type Violation struct {
	Kind  string // "assert", "panic", "budget"
	ID    string
	Msg   string
	Model map[string]uint64
	Strs  map[string][]int64 // symbolic strings as rune arrays under the model
	Obs   []ObsVal
	Path  int
}

type ObsVal struct {
	ID  string `json:"id"`
	Val string `json:"val"`
}

// PathSample is a completed path with a model, for native cross-validation.
type PathSample struct {
	Model   map[string]uint64
	Strs    map[string][]int64
	Obs     []ObsVal
	Reached []string
	End     string
}

type Result struct {
	Entry          string
	Paths          int
	Ends           map[string]int
	Decisions      int // solver-decided branch outcomes (feasible sides explored)
	Reached        map[string]int
	Violations     []Violation
	ViolationCount int
	ExampleQuery   string // one assertion query as sent to the solver (path condition + negated assertion)
	Samples        []PathSample
	Unsupported    []string
	Incomplete     string // non-empty: exploration cut short (budget / deadline)
	Steps          int64
	Queries        QueryStats
	Asserts        int // assertion obligations discharged (unsat or concretely true)
	AssertIDs      map[string]int
	AssumePruned   int
	Stubs          map[string]int
	Funcs          map[string]int // function -> instruction count (encoded functions)
	Wall           time.Duration
	SolverTime     time.Duration
	MaxPathSteps   int
	Nontrivial     int // paths with >=1 solver-decided branch that reached an assertion
}

type QueryStats struct {
	Branch, Assert, Assume, Concretize, Witness int
	Sat, Unsat, Unknown                         int
}

type decision struct {
	taken bool
	alt   bool  // other side feasible and not yet explored
	aux   int64 // concretisation constant
	conc  bool  // concretisation decision: taken means "term == aux"
}

type Engine struct {
	prog *ssa.Program
	st   *Store
	sol  *Solver
	cfg  Config

	baseMaxPaths, baseMaxSteps int

	fns map[*ssa.Function]*fnInfo

	// DFS state
	prefix []decision
	taken  []decision
	decPC  []int // pc index of each decision on this run

	// per-path state
	pc             []*Term
	solverPC       []*Term // what is on the solver stack (for determinism check)
	decided        map[*Term]bool
	fixed          map[*Term]uint64 // terms pinned to a constant by the path condition
	globals        map[*ssa.Global]*Cell
	inited         map[*ssa.Package]bool
	cellSeq        int
	steps          int
	depth          int
	curFrames      []*frame
	obs            []obsRec
	reached        []string
	symStrs        map[string][]Value
	pathDecided    int
	pathAsserted   bool
	actor          int
	foot           map[int]map[int]uint8         // actor -> cell id -> R(1)|W(2) for accesses made while holding no lock
	lockFoot       map[int]map[int]*lockedAccess // actor -> cell id -> accesses made while holding a lock
	held           map[int]int                   // locks (mutex cell id -> depth) held by the code running now
	stdout, stderr []Value
	bufs           map[*Cell]Value // bytes.Buffer / strings.Builder contents
	pools          map[*Cell][]Value
	natives        map[string]Value

	noSamples                 bool
	mapRanges                 int
	permSeq                   int
	noIntercept               *ssa.Function
	partial                   string            // non-empty: this path under-approximates (see ropeSlice)
	bound                     map[string]uint64 // variables fixed by a representative assignment (ropeSlice)
	env                       map[string]Value
	faultSeq                  map[string]int
	jobVars                   []*Term
	jobVarSet                 map[*Term]bool
	stubOf                    map[*ssa.Function]stubFn
	lastPanic                 string
	lastConflict              int
	wgDefer, wgSwap, wgActors bool
	wgTasks                   []*Closure
	fileWrites                []Value

	knownValid map[*Term]bool
	funcsHit   map[*fnInfo]int
	res        *Result
	qs         *QueryStats
}

type obsRec struct {
	id string
	v  Value
}

func NewEngine(prog *ssa.Program, cfg Config) (*Engine, error) {
	st := NewStore()
	sol, err := NewSolver(st, cfg.SolverBinary, cfg.Transcript)
	if err != nil {
		return nil, err
	}
	return &Engine{prog: prog, st: st, sol: sol, cfg: cfg, fns: map[*ssa.Function]*fnInfo{},
		knownValid: map[*Term]bool{}}, nil
}

func (e *Engine) Close()          { e.sol.Close() }
func (e *Engine) Solver() *Solver { return e.sol }

func (e *Engine) interpretPkg(path string) bool {
	if e.cfg.Interpret != nil {
		return e.cfg.Interpret(path)
	}
	return true
}

// addPC appends t to the path condition, mirroring it on the solver stack.
func (e *Engine) addPC(t *Term) {
	j := len(e.pc)
	e.pc = append(e.pc, t)
	if j < len(e.solverPC) {
		if e.solverPC[j] != t {
			panic(fmt.Sprintf("nondeterministic replay at pc[%d]: %s vs %s", j, e.solverPC[j], t))
		}
	} else {
		e.sol.Push(t)
		e.solverPC = append(e.solverPC, t)
	}
	e.noteDecided(t, true)
}

// replaying reports whether the next path-condition entry is still inside the prefix that is
// already on the solver stack (i.e. this point was reached with the identical path condition
// on the previous run, where its queries were already asked).
func (e *Engine) replaying() bool { return len(e.pc) < len(e.solverPC) }

func (e *Engine) noteDecided(t *Term, val bool) {
	if t.Op == OpNot {
		e.noteDecided(t.A[0], !val)
		return
	}
	e.decided[t] = val
	if val && t.Op == OpEq && t.A[1].Op == OpConst {
		e.fixed[t.A[0]] = t.A[1].K // the path condition pins this term to a constant
	}
	if val && t.Op == OpAnd {
		e.noteDecided(t.A[0], true)
		e.noteDecided(t.A[1], true)
	}
	if !val && t.Op == OpOr {
		e.noteDecided(t.A[0], false)
		e.noteDecided(t.A[1], false)
	}
}

func (e *Engine) lookupDecided(t *Term) (bool, bool) {
	neg := false
	for t.Op == OpNot {
		t = t.A[0]
		neg = !neg
	}
	v, ok := e.decided[t]
	return v != neg, ok
}

func (e *Engine) count(v Verdict) {
	switch v {
	case Sat:
		e.qs.Sat++
	case Unsat:
		e.qs.Unsat++
	default:
		e.qs.Unknown++
	}
}

// feasible asks the solver whether pc ∧ t is satisfiable; unknown counts as feasible and marks
// the run inconclusive.
func (e *Engine) feasible(t *Term) bool {
	v, _ := e.sol.Check(t, nil)
	e.count(v)
	if v == Unknown {
		e.res.Unsupported = appendUniq(e.res.Unsupported, "solver returned unknown/error: "+strings.Join(e.sol.Errors, "; "))
		return true
	}
	return v == Sat
}

func appendUniq(l []string, s string) []string {
	for _, x := range l {
		if x == s {
			return l
		}
	}
	if len(l) < 50 {
		l = append(l, s)
	}
	return l
}

// decide resolves a symbolic branch condition.
func (e *Engine) decide(cond *Term, tag string) bool {
	if cond.IsConst() {
		return cond.K != 0
	}
	if b, ok := e.lookupDecided(cond); ok {
		return b
	}
	if len(e.fixed) > 0 {
		if v, ok := e.evalFixed(cond); ok {
			return v != 0
		}
	}
	d := len(e.taken)
	var dec decision
	if d < len(e.prefix) {
		dec = e.prefix[d]
		if dec.conc {
			panic("nondeterministic replay: expected a branch decision")
		}
	} else {
		e.qs.Branch++
		tOK := e.feasible(cond)
		fOK := true
		if tOK {
			e.qs.Branch++
			fOK = e.feasible(e.st.Not(cond))
		}
		if !tOK && !fOK {
			panic(pathEnd{"infeasible", "both sides infeasible"})
		}
		dec = decision{taken: tOK, alt: tOK && fOK}
		if dec.alt {
			e.res.Decisions += 2
		}
	}
	e.taken = append(e.taken, dec)
	e.decPC = append(e.decPC, len(e.pc))
	e.pathDecided++
	if dec.taken {
		e.addPC(cond)
	} else {
		e.addPC(e.st.Not(cond))
	}
	return dec.taken
}

// concretize enumerates the feasible values of t (as forks); returns the value on this path,
// sign-extended from t's width.
func (e *Engine) concretize(t *Term) int64 {
	if t.IsConst() {
		return signExt(t.K, t.W)
	}
	if len(e.fixed) > 0 {
		if v, ok := e.evalFixed(t); ok {
			return signExt(v, t.W)
		}
	}
	for n := 0; ; n++ {
		if n > e.cfg.MaxConcrete {
			panic(pathEnd{"unsupported", fmt.Sprintf("more than %d feasible values for %s", e.cfg.MaxConcrete, t)})
		}
		d := len(e.taken)
		var k uint64
		if d < len(e.prefix) {
			k = uint64(e.prefix[d].aux)
			eq := e.st.Eq(t, e.st.BV(k, t.W))
			dec := e.prefix[d]
			if !dec.conc {
				panic("nondeterministic replay: expected a concretisation decision")
			}
			e.taken = append(e.taken, dec)
			e.decPC = append(e.decPC, len(e.pc))
			if dec.taken {
				e.addPC(eq)
				return signExt(k, t.W)
			}
			e.addPC(e.st.Not(eq))
			continue
		}
		// pick a value from a model
		tv := e.st.Var("$conc", t.W)
		e.qs.Concretize++
		v, m := e.sol.Check(e.st.Eq(tv, t), []*Term{tv})
		e.count(v)
		if v != Sat {
			if v == Unknown {
				e.res.Unsupported = appendUniq(e.res.Unsupported, "solver unknown during concretisation")
			}
			panic(pathEnd{"infeasible", "no value"})
		}
		k = m["$conc"]
		eq := e.st.Eq(t, e.st.BV(k, t.W))
		e.qs.Concretize++
		other := e.feasible(e.st.Not(eq))
		dec := decision{taken: true, alt: other, aux: int64(k), conc: true}
		if other {
			e.res.Decisions += 2
		}
		e.taken = append(e.taken, dec)
		e.decPC = append(e.decPC, len(e.pc))
		e.addPC(eq)
		return signExt(k, t.W)
	}
}

// ---- footprints ----

func (e *Engine) touch(c *Cell, write bool) {
	if e.actor != 0 {
		e.touchID(c.ID, write)
	}
}

// lockedAccess summarises an actor's accesses to one cell made under locks: whether any was a
// write, and the locks held at every one of them.
type lockedAccess struct {
	write bool
	locks map[int]bool
}

func (e *Engine) touchID(id int, write bool) {
	if e.actor == 0 {
		return
	}
	if len(e.held) > 0 {
		m := e.lockFoot[e.actor]
		if m == nil {
			m = map[int]*lockedAccess{}
			e.lockFoot[e.actor] = m
		}
		la := m[id]
		if la == nil {
			la = &lockedAccess{locks: map[int]bool{}}
			for l := range e.held {
				la.locks[l] = true
			}
			m[id] = la
		} else {
			for l := range la.locks {
				if e.held[l] == 0 {
					delete(la.locks, l)
				}
			}
		}
		la.write = la.write || write
		return
	}
	m := e.foot[e.actor]
	if m == nil {
		m = map[int]uint8{}
		e.foot[e.actor] = m
	}
	if write {
		m[id] |= 2
	} else {
		m[id] |= 1
	}
}

// ---- exploration ----

func (e *Engine) resetPath() {
	e.pc = e.pc[:0]
	e.taken = e.taken[:0]
	e.decPC = e.decPC[:0]
	e.decided = map[*Term]bool{}
	e.fixed = map[*Term]uint64{}
	e.globals = map[*ssa.Global]*Cell{}
	e.inited = map[*ssa.Package]bool{}
	e.cellSeq = 0
	e.steps = 0
	e.depth = 0
	e.curFrames = nil
	e.obs = nil
	e.reached = nil
	e.symStrs = map[string][]Value{}
	e.pathDecided = 0
	e.pathAsserted = false
	e.actor = 0
	e.foot = map[int]map[int]uint8{}
	e.lockFoot = map[int]map[int]*lockedAccess{}
	e.held = map[int]int{}
	e.stdout, e.stderr = nil, nil
	e.bufs = map[*Cell]Value{}
	e.pools = map[*Cell][]Value{}
	e.natives = map[string]Value{}
	e.env = map[string]Value{}
	e.partial = ""
	e.permSeq = 0
	e.bound = map[string]uint64{}
	e.faultSeq = map[string]int{}
	e.wgDefer, e.wgSwap, e.wgActors, e.wgTasks = false, false, false, nil
	e.fileWrites = nil
	e.lastPanic = ""
}

// runOnce executes the entry once following the decision prefix.
func (e *Engine) runOnce(fn *ssa.Function, args []Value) (end pathEnd) {
	e.resetPath()
	defer func() {
		if r := recover(); r != nil {
			switch x := r.(type) {
			case pathEnd:
				end = x
			case *goPanic:
				end = pathEnd{"panic", x.msg + " at " + x.pos}
			case exitSignal:
				end = pathEnd{"exit", fmt.Sprintf("os.Exit(%d) outside CatchExit", x.code)}
			case unsupported:
				end = pathEnd{"unsupported", string(x)}
			default:
				panic(r)
			}
		}
	}()
	e.call(fn, args, nil)
	if e.partial != "" {
		return pathEnd{"unsupported", e.partial}
	}
	return pathEnd{"ok", ""}
}

func (e *Engine) fullModel() (map[string]uint64, bool) {
	v, m := e.sol.Check(nil, e.jobVars)
	e.qs.Witness++
	e.count(v)
	return m, v == Sat
}

func (e *Engine) modelStrs(m map[string]uint64) map[string][]int64 {
	out := map[string][]int64{}
	memo := map[uint32]uint64{}
	for name, rs := range e.symStrs {
		arr := make([]int64, len(rs))
		for i, r := range rs {
			switch x := r.(type) {
			case int64:
				arr[i] = x
			case *Term:
				arr[i] = signExt(Eval(x, m, memo), 32)
			}
		}
		out[name] = arr
	}
	return out
}

func (e *Engine) evalObs(m map[string]uint64) []ObsVal {
	memo := map[uint32]uint64{}
	out := make([]ObsVal, len(e.obs))
	for i, o := range e.obs {
		out[i] = ObsVal{ID: o.id, Val: e.showUnder(o.v, m, memo)}
	}
	return out
}

// showUnder renders a value under a model the way vhlib/rt renders it natively.
func (e *Engine) showUnder(v Value, m map[string]uint64, memo map[uint32]uint64) string {
	switch x := v.(type) {
	case bool:
		return fmt.Sprint(x)
	case int64:
		return fmt.Sprint(x)
	case string:
		return x
	case *Term:
		u := Eval(x, m, memo)
		if x.W == 0 {
			return fmt.Sprint(u != 0)
		}
		if x.Name == "" && false {
			return ""
		}
		return "bv:" + fmt.Sprint(u)
	case *Rope:
		var b strings.Builder
		for _, s := range x.Segs {
			switch {
			case s.R != nil:
				b.WriteRune(rune(int32(Eval(s.R, m, memo))))
			case s.Q != nil:
				b.WriteString(quoteNative(e.showUnder(s.Q.value(), m, memo)))
			default:
				b.WriteString(s.S)
			}
		}
		return b.String()
	}
	return fmt.Sprintf("%v", v)
}

// Explore runs the entry function over all feasible paths (DFS by re-execution).
func (e *Engine) Explore(fn *ssa.Function, args []Value) *Result {
	t0 := time.Now()
	sol0 := e.sol.Dur
	res := &Result{Entry: fn.String(), Ends: map[string]int{}, Reached: map[string]int{}, Stubs: map[string]int{},
		Funcs: map[string]int{}, AssertIDs: map[string]int{}}
	e.res = res
	e.qs = &res.Queries
	e.funcsHit = map[*fnInfo]int{}
	e.jobVars, e.jobVarSet = nil, map[*Term]bool{}
	e.prefix = nil
	e.solverPC = e.solverPC[:0]
	e.sol.PopTo(0)
	for {
		end := e.runOnce(fn, args)
		res.Paths++
		res.Steps += int64(e.steps)
		if e.steps > res.MaxPathSteps {
			res.MaxPathSteps = e.steps
		}
		res.Ends[end.kind]++
		for _, r := range e.reached {
			res.Reached[r]++
		}
		if e.pathDecided > 0 && e.pathAsserted {
			res.Nontrivial++
		}
		if debugPaths {
			if m, ok := e.fullModel(); ok {
				fmt.Fprintf(os.Stderr, "PATH %d end=%s %s model=%v obs=%v\n", res.Paths, end.kind, end.msg, m, e.evalObs(m))
			}
		}
		switch end.kind {
		case "ok", "violation":
			if end.kind == "ok" && !e.noSamples && e.cfg.ValidateEvery > 0 && (res.Paths-1)%e.cfg.ValidateEvery == 0 && len(res.Samples) < 64 {
				if m, ok := e.fullModel(); ok {
					res.Samples = append(res.Samples, PathSample{Model: m, Strs: e.modelStrs(m), Obs: e.evalObs(m),
						Reached: append([]string(nil), e.reached...), End: end.kind})
				}
			}
		case "panic":
			m, ok := e.fullModel()
			if ok {
				e.addViolation(Violation{Kind: "panic", ID: "no-panic", Msg: end.msg, Model: m,
					Strs: e.modelStrs(m), Obs: e.evalObs(m), Path: res.Paths})
			}
		case "budget":
			m, ok := e.fullModel()
			if ok {
				e.addViolation(Violation{Kind: "budget", ID: "termination", Msg: end.msg, Model: m,
					Strs: e.modelStrs(m), Path: res.Paths})
			}
		case "unsupported":
			res.Unsupported = appendUniq(res.Unsupported, end.msg)
		case "assume", "infeasible":
			res.AssumePruned++
		}
		// backtrack
		k := len(e.taken) - 1
		for k >= 0 && !e.taken[k].alt {
			k--
		}
		if k < 0 {
			break
		}
		if e.sol.Dead {
			res.Incomplete = "solver process died"
			res.Unsupported = appendUniq(res.Unsupported, "solver process died during this exploration")
			break
		}
		if res.Paths >= e.cfg.MaxPaths {
			res.Incomplete = fmt.Sprintf("path budget %d exhausted", e.cfg.MaxPaths)
			break
		}
		if !e.cfg.Deadline.IsZero() && time.Now().After(e.cfg.Deadline) {
			res.Incomplete = "deadline reached"
			break
		}
		e.prefix = append(e.prefix[:0], e.taken[:k+1]...)
		if e.taken[k].conc {
			// concretisation decision: the alternative is "t != k"
			e.prefix[k] = decision{taken: false, alt: false, aux: e.taken[k].aux, conc: true}
		} else {
			e.prefix[k] = decision{taken: !e.taken[k].taken, alt: false}
		}
		cut := e.decPC[k]
		e.sol.PopTo(cut)
		e.solverPC = e.solverPC[:cut]
	}
	e.sol.PopTo(0)
	e.solverPC = e.solverPC[:0]
	for fi, n := range e.funcsHit {
		_ = n
		res.Funcs[fi.name] = fi.ninstr
	}
	res.Wall = time.Since(t0)
	res.SolverTime = e.sol.Dur - sol0
	if len(e.sol.Errors) > 0 {
		res.Unsupported = appendUniq(res.Unsupported, "solver errors: "+strings.Join(e.sol.Errors[:min(3, len(e.sol.Errors))], "; "))
		e.sol.Errors = nil
	}
	return res
}

// SortedKeys is a small helper for deterministic output.
func SortedKeys[V any](m map[string]V) []string {
	ks := make([]string, 0, len(m))
	for k := range m {
		ks = append(ks, k)
	}
	sort.Strings(ks)
	return ks
}

// SetMaxPaths overrides the per-run path budget (0 restores the configured value).
func (e *Engine) SetMaxPaths(n int) {
	if e.baseMaxPaths == 0 {
		e.baseMaxPaths = e.cfg.MaxPaths
	}
	if n <= 0 {
		n = e.baseMaxPaths
	}
	e.cfg.MaxPaths = n
}

// SetMaxSteps overrides the per-path step budget (0 restores the configured value).
func (e *Engine) SetMaxSteps(n int) {
	if e.baseMaxSteps == 0 {
		e.baseMaxSteps = e.cfg.MaxSteps
	}
	if n <= 0 {
		n = e.baseMaxSteps
	}
	e.cfg.MaxSteps = n
}

// SetValidate switches path sampling for native validation on or off for the next Explore.
func (e *Engine) SetValidate(on bool) { e.noSamples = !on }

// SolverDead reports whether the engine's solver process has died (the engine must be replaced).
func (e *Engine) SolverDead() bool { return e.sol.Dead }

// evalFixed evaluates t using only constants and terms the path condition pins to a constant.
func (e *Engine) evalFixed(t *Term) (uint64, bool) {
	if t.Op == OpConst {
		return t.K, true
	}
	if v, ok := e.fixed[t]; ok {
		return v, true
	}
	if t.Op == OpVar || t.N == 0 {
		return 0, false
	}
	var a [3]uint64
	for i := 0; i < int(t.N); i++ {
		v, ok := e.evalFixed(t.A[i])
		if !ok {
			return 0, false
		}
		a[i] = v
	}
	// rebuild a constant instance of the node and evaluate it
	c := *t
	for i := 0; i < int(t.N); i++ {
		c.A[i] = &Term{Op: OpConst, W: t.A[i].W, K: a[i]}
	}
	c.id = 0
	return Eval(&c, nil, map[uint32]uint64{}), true
}

// addViolation records a violation, keeping at most a few per assertion id and run (the rest
// are only counted): every recorded one is replayed natively.
func (e *Engine) addViolation(v Violation) {
	e.res.ViolationCount++
	n := 0
	for _, x := range e.res.Violations {
		if x.ID == v.ID && x.Kind == v.Kind {
			n++
		}
	}
	if n < 3 {
		e.res.Violations = append(e.res.Violations, v)
	}
}
