package symx

import (
	"fmt"
	"go/types"
	"strconv"
	"strings"

	"golang.org/x/tools/go/ssa"
)

// Value is one of:
//
//	int64, bool, string, float64      concrete scalars (integers normalised to their Go type)
//	*Term                             symbolic Bool or bit-vector
//	*Rope                             string with symbolic parts
//	*Cell                             pointer (nil pointer = (*Cell)(nil))
//	*StructV                          struct or array value
//	*SliceV                           slice
//	*MapV                             map (nil map = (*MapV)(nil))
//	*Closure                          func value (nil func = (*Closure)(nil))
//	*Iface                            interface value (nil interface = (*Iface)(nil))
//	Tuple                             multiple results
//	*IterV                            range iterator
//	*Native                           opaque native object (error values, recorders)
type Value = any

// Cell is a heap location. For struct/array-typed cells V is a *StructV whose fields are the
// sub-cells FieldAddr/IndexAddr point to.
type Cell struct {
	V  Value
	ID int // allocation number on this path (deterministic), for map keys and footprints
}

type StructV struct{ F []*Cell }

type Backing struct {
	Cells []*Cell
	Elem  types.Type
	Rope  *Rope // non-nil: read-only byte view of a symbolic string ([]byte(s))
}

type SliceV struct {
	B             *Backing
	Off, Len, Cap int
}

func (s *SliceV) IsNil() bool { return s == nil || s.B == nil }

type mapEntry struct {
	K, V Value
}

type MapV struct {
	M     map[string]*mapEntry
	Order []string
	ID    int
}

type Closure struct {
	Fn  *ssa.Function
	Env []Value
	// Bound native stub (for method values of native objects); rarely used.
}

type Iface struct {
	T types.Type
	V Value
}

type Tuple []Value

type IterV struct {
	// string iteration
	Items []ropeItem
	// map iteration
	Keys []string
	M    *MapV
	I    int
	Off  int
}

// Native is an engine-side object that interpreted code only holds by reference.
type Native struct {
	Kind string // "error", ...
	Msg  Value  // string or *Rope
	Wrap []Value
	Data any
}

func (e *Engine) newCell(v Value) *Cell {
	e.cellSeq++
	return &Cell{V: v, ID: e.cellSeq}
}

// zero returns the zero value of t (fresh sub-cells for aggregates).
func (e *Engine) zero(t types.Type) Value {
	switch u := t.Underlying().(type) {
	case *types.Basic:
		switch {
		case u.Info()&types.IsBoolean != 0:
			return false
		case u.Info()&types.IsString != 0:
			return ""
		case u.Info()&types.IsFloat != 0:
			return float64(0)
		case u.Kind() == types.UnsafePointer:
			return (*Cell)(nil)
		case u.Kind() == types.UntypedNil:
			return nil
		}
		return int64(0)
	case *types.Pointer:
		return (*Cell)(nil)
	case *types.Slice:
		return &SliceV{}
	case *types.Map:
		return (*MapV)(nil)
	case *types.Signature:
		return (*Closure)(nil)
	case *types.Interface:
		return (*Iface)(nil)
	case *types.Chan:
		return (*Cell)(nil)
	case *types.Array:
		n := int(u.Len())
		a := &StructV{F: make([]*Cell, n)}
		for i := 0; i < n; i++ {
			a.F[i] = e.newCell(e.zero(u.Elem()))
		}
		return a
	case *types.Struct:
		s := &StructV{F: make([]*Cell, u.NumFields())}
		for i := range s.F {
			s.F[i] = e.newCell(e.zero(u.Field(i).Type()))
		}
		return s
	case *types.Tuple:
		tu := make(Tuple, u.Len())
		for i := range tu {
			tu[i] = e.zero(u.At(i).Type())
		}
		return tu
	}
	panic(unsupported("zero value of " + t.String()))
}

// copyVal gives value semantics to aggregates.
func (e *Engine) copyVal(v Value) Value {
	if s, ok := v.(*StructV); ok {
		n := &StructV{F: make([]*Cell, len(s.F))}
		for i, c := range s.F {
			n.F[i] = e.newCell(e.copyVal(c.V))
		}
		return n
	}
	return v
}

// store writes v into c preserving the identity of sub-cells.
func (e *Engine) store(c *Cell, v Value) {
	if s, ok := v.(*StructV); ok {
		d, ok := c.V.(*StructV)
		if !ok || len(d.F) != len(s.F) {
			c.V = e.copyVal(v)
			return
		}
		for i := range s.F {
			e.store(d.F[i], s.F[i].V)
		}
		return
	}
	c.V = v
}

// width returns the bit width and signedness of an integer type; w == 0 if not an integer.
func width(t types.Type) (w uint8, signed bool) {
	b, ok := t.Underlying().(*types.Basic)
	if !ok {
		return 0, false
	}
	switch b.Kind() {
	case types.Int8:
		return 8, true
	case types.Uint8:
		return 8, false
	case types.Int16:
		return 16, true
	case types.Uint16:
		return 16, false
	case types.Int32, types.UntypedRune:
		return 32, true
	case types.Uint32:
		return 32, false
	case types.Int, types.Int64, types.UntypedInt:
		return 64, true
	case types.Uint, types.Uint64, types.Uintptr:
		return 64, false
	}
	return 0, false
}

// norm normalises a concrete integer to width w / signedness (two's complement wrap).
func norm(v int64, w uint8, signed bool) int64 {
	if w >= 64 || w == 0 {
		return v
	}
	u := uint64(v) & mask(w)
	if signed {
		return signExt(u, w)
	}
	return int64(u)
}

type unsupported string

func (u unsupported) Error() string { return "UNSUPPORTED: " + string(u) }

// keyOf gives a canonical map key for a concrete value.
func (e *Engine) keyOf(v Value) string {
	switch x := v.(type) {
	case int64:
		return "i" + strconv.FormatInt(x, 10)
	case bool:
		if x {
			return "T"
		}
		return "F"
	case string:
		return "s" + strconv.Quote(x)
	case *Cell:
		if x == nil {
			return "p0"
		}
		return "p" + strconv.Itoa(x.ID)
	case *StructV:
		var b strings.Builder
		b.WriteByte('{')
		for _, c := range x.F {
			b.WriteString(e.keyOf(c.V))
			b.WriteByte(',')
		}
		b.WriteByte('}')
		return b.String()
	case *Iface:
		if x == nil {
			return "nil"
		}
		return "I<" + x.T.String() + ">" + e.keyOf(x.V)
	case *Term:
		// concretise through the solver
		c := e.concretize(x)
		return "i" + strconv.FormatInt(c, 10)
	case float64:
		return "f" + strconv.FormatFloat(x, 'g', -1, 64)
	}
	panic(unsupported(fmt.Sprintf("map key of kind %T", v)))
}
