package symx

import (
	"errors"
	"fmt"
	"go/types"
	"math/bits"
	"os"
	"reflect"
	"strconv"
	"strings"
	"unicode"
	"unicode/utf8"

	"golang.org/x/tools/go/ssa"
)

// ---- Go builtins ----

func (e *Engine) builtin(fr *frame, in ssa.Instruction, b *ssa.Builtin, cc *ssa.CallCommon, args []Value) Value {
	switch b.Name() {
	case "len":
		switch a := args[0].(type) {
		case *SliceV:
			if a.B != nil && a.B.Rope != nil {
				return e.strLen(a.B.Rope)
			}
			return int64(a.Len)
		case string, *Rope:
			return e.strLen(a)
		case *MapV:
			if a == nil {
				return int64(0)
			}
			return int64(len(a.M))
		case *StructV:
			return int64(len(a.F))
		case *Cell: // pointer to array
			return int64(len(a.V.(*StructV).F))
		}
	case "cap":
		switch a := args[0].(type) {
		case *SliceV:
			return int64(a.Cap)
		case *StructV:
			return int64(len(a.F))
		}
	case "append":
		return e.appendSlice(in, args[0].(*SliceV), args[1], cc.Args[0].Type())
	case "copy":
		dst := args[0].(*SliceV)
		var n int
		switch src := args[1].(type) {
		case *SliceV:
			n = min(dst.Len, src.Len)
			vals := make([]Value, n)
			for i := 0; i < n; i++ {
				vals[i] = e.copyVal(src.B.cell(e, src.Off+i).V)
			}
			for i := 0; i < n; i++ {
				e.store(dst.B.cell(e, dst.Off+i), vals[i])
			}
		case string:
			n = min(dst.Len, len(src))
			for i := 0; i < n; i++ {
				dst.B.cell(e, dst.Off+i).V = int64(src[i])
			}
		default:
			panic(pathEnd{"unsupported", "copy from symbolic string"})
		}
		return int64(n)
	case "delete":
		m, _ := args[0].(*MapV)
		if m != nil {
			ks := e.keyOf(args[1])
			if _, ok := m.M[ks]; ok {
				delete(m.M, ks)
				for i, k := range m.Order {
					if k == ks {
						m.Order = append(m.Order[:i:i], m.Order[i+1:]...)
						break
					}
				}
			}
		}
		return nil
	case "clear":
		switch a := args[0].(type) {
		case *MapV:
			if a != nil {
				a.M = map[string]*mapEntry{}
				a.Order = nil
			}
		case *SliceV:
			for i := 0; i < a.Len; i++ {
				a.B.Cells[a.Off+i] = nil
			}
		}
		return nil
	case "min", "max":
		w, s := width(in.(ssa.Value).Type())
		if w == 0 {
			panic(pathEnd{"unsupported", "min/max on non-integers"})
		}
		acc := args[0]
		for _, y := range args[1:] {
			xc, xok := acc.(int64)
			yc, yok := y.(int64)
			if xok && yok {
				less := xc < yc
				if !s {
					less = uint64(xc) < uint64(yc)
				}
				if (b.Name() == "min") == less {
					acc = xc
				} else {
					acc = yc
				}
				continue
			}
			xt, yt := e.intTerm(acc, w), e.intTerm(y, w)
			lt := e.st.Lt(xt, yt, s)
			if b.Name() == "min" {
				acc = e.st.Ite(lt, xt, yt)
			} else {
				acc = e.st.Ite(lt, yt, xt)
			}
		}
		return acc
	case "print", "println":
		return nil
	case "recover":
		// recover() is only effective when called directly by a deferred function
		for i := len(e.curFrames) - 1; i >= 0; i-- {
			f := e.curFrames[i]
			if f.panicking != nil {
				p := f.panicking
				f.panicking = nil
				f.recovered = true
				if p.val == nil {
					return &Iface{T: types.Typ[types.String], V: p.msg}
				}
				return p.val
			}
			break
		}
		return (*Iface)(nil)
	case "ssa:wrapnilchk":
		if isNilish(args[0]) {
			e.rtPanic(in, "value method called using nil pointer")
		}
		return args[0]
	}
	panic(pathEnd{"unsupported", "builtin " + b.Name()})
}

func (e *Engine) appendSlice(in ssa.Instruction, a *SliceV, b Value, t types.Type) Value {
	var src []Value
	switch bb := b.(type) {
	case *SliceV:
		src = make([]Value, bb.Len)
		for k := 0; k < bb.Len; k++ {
			src[k] = e.copyVal(bb.B.cell(e, bb.Off+k).V)
		}
	case string:
		src = make([]Value, len(bb))
		for k := 0; k < len(bb); k++ {
			src[k] = int64(bb[k])
		}
	default:
		panic(pathEnd{"unsupported", fmt.Sprintf("append of %T", b)})
	}
	if len(src) == 0 {
		if a.B == nil {
			return &SliceV{}
		}
		return &SliceV{B: a.B, Off: a.Off, Len: a.Len, Cap: a.Cap}
	}
	if a.B != nil && a.Len+len(src) <= a.Cap {
		for k, v := range src {
			e.store(a.B.cell(e, a.Off+a.Len+k), v)
		}
		return &SliceV{B: a.B, Off: a.Off, Len: a.Len + len(src), Cap: a.Cap}
	}
	nc := a.Cap * 2
	if nc < a.Len+len(src) {
		nc = a.Len + len(src)
	}
	el := t.Underlying().(*types.Slice).Elem()
	nb := &Backing{Cells: make([]*Cell, nc), Elem: el}
	for k := 0; k < a.Len; k++ {
		nb.Cells[k] = e.newCell(e.copyVal(a.B.cell(e, a.Off+k).V))
	}
	for k, v := range src {
		nb.Cells[a.Len+k] = e.newCell(v)
	}
	return &SliceV{B: nb, Len: a.Len + len(src), Cap: nc}
}

// ---- intercepted functions (harness intrinsics and library stubs) ----

type stubFn func(e *Engine, fn *ssa.Function, args []Value) Value

// StubFn is the exported name of the stub signature (for Config.ExtraStubs).
type StubFn = stubFn

var stubCache = map[string]stubFn{}

func fnKey(fn *ssa.Function) string {
	if o := fn.Origin(); o != nil {
		return o.String()
	}
	return fn.String()
}

func (e *Engine) intercept(fn *ssa.Function, args []Value) (Value, bool) {
	st, ok := e.stubOf[fn]
	if !ok {
		if debugKeys {
			println("fnkey:", fnKey(fn))
		}
		st = e.cfg.ExtraStubs[fnKey(fn)]
		if st == nil {
			st = stubs[fnKey(fn)]
		}
		if st == nil && fn.Pkg != nil && fn.Name() == "init" && !e.interpretPkg(fn.Pkg.Pkg.Path()) {
			st = func(*Engine, *ssa.Function, []Value) Value { return nil }
		}
		if e.stubOf == nil {
			e.stubOf = map[*ssa.Function]stubFn{}
		}
		e.stubOf[fn] = st
	}
	if st == nil {
		return nil, false
	}
	e.res.Stubs[fnKey(fn)]++
	return st(e, fn, args), true
}

const rtPkg = "vhlib/rt."

func sliceVals(e *Engine, v Value) []Value {
	s, _ := v.(*SliceV)
	if s == nil || s.B == nil {
		return nil
	}
	out := make([]Value, s.Len)
	for i := range out {
		out[i] = s.B.cell(e, s.Off+i).V
	}
	return out
}

func (e *Engine) symVar(name string, w uint8) *Term {
	v := e.st.Var(name, w)
	if !e.jobVarSet[v] {
		e.jobVarSet[v] = true
		e.jobVars = append(e.jobVars, v)
	}
	return v
}

func (e *Engine) assume(c Value) {
	switch x := c.(type) {
	case bool:
		if !x {
			panic(pathEnd{"assume", "assumption false"})
		}
	case *Term:
		if b, ok := e.lookupDecided(x); ok {
			if !b {
				panic(pathEnd{"assume", "assumption false"})
			}
			return
		}
		if e.replaying() && e.solverPC[len(e.pc)] == x {
			e.addPC(x) // known feasible: it is on the solver stack from the previous run
			return
		}
		e.qs.Assume++
		if !e.feasible(x) {
			panic(pathEnd{"assume", "assumption infeasible"})
		}
		e.addPC(x)
	}
}

func (e *Engine) assertC(id string, c Value) {
	e.pathAsserted = true
	switch x := c.(type) {
	case bool:
		if x {
			e.res.Asserts++
			e.res.AssertIDs[id]++
			return
		}
		m, ok := e.fullModel()
		if ok {
			e.addViolation(Violation{Kind: "assert", ID: id, Msg: "assertion concretely false on this path",
				Model: m, Strs: e.modelStrs(m), Obs: e.evalObs(m), Path: e.res.Paths + 1})
		}
		panic(pathEnd{"violation", id})
	case *Term:
		if b, ok := e.lookupDecided(x); ok && b {
			e.res.Asserts++
			e.res.AssertIDs[id]++
			return
		}
		if e.replaying() {
			// same point, same path condition as on the previous run: already decided there
			if e.solverPC[len(e.pc)] == x {
				e.addPC(x) // it was violated and then assumed
			} else {
				e.noteDecided(x, true)
			}
			return
		}
		e.qs.Assert++
		if e.res.ExampleQuery == "" && len(e.pc) > 0 {
			var b strings.Builder
			for _, t := range e.pc {
				b.WriteString("(assert " + trunc(t.String(), 300) + ") ")
			}
			b.WriteString("(assert (not " + trunc(x.String(), 400) + ")) (check-sat) ; assertion " + id + " => expected unsat")
			e.res.ExampleQuery = trunc(b.String(), 3000)
		}
		v, m := e.sol.Check(e.st.Not(x), e.jobVars)
		e.count(v)
		switch v {
		case Unsat:
			e.res.Asserts++
			e.res.AssertIDs[id]++
			e.noteDecided(x, true)
			return
		case Unknown:
			e.res.Unsupported = appendUniq(e.res.Unsupported, "solver unknown on assertion "+id)
			return
		}
		e.addViolation(Violation{Kind: "assert", ID: id, Msg: "assertion can be false: " + trunc(x.String(), 200),
			Model: m, Strs: e.modelStrs(m), Obs: e.evalObs(m), Path: e.res.Paths + 1})
		// continue on the side where it holds, if any
		e.assume(x)
	}
}

func trunc(s string, n int) string {
	if len(s) > n {
		return s[:n] + "…"
	}
	return s
}

func quoteNative(s string) string { return strconv.Quote(s) }

func ite(e *Engine, c, a, b Value, w uint8) Value {
	switch cc := c.(type) {
	case bool:
		if cc {
			return a
		}
		return b
	case *Term:
		if w == 0 {
			return e.st.Ite(cc, e.boolTerm(a), e.boolTerm(b))
		}
		return e.st.Ite(cc, e.intTerm(a, w), e.intTerm(b, w))
	}
	panic("ite")
}

var debugKeys = os.Getenv("VERIF_DEBUGKEYS") != ""

var stubs map[string]stubFn

func init() {
	stubs = map[string]stubFn{
		// ---- harness intrinsics ----
		rtPkg + "Rune":   func(e *Engine, _ *ssa.Function, a []Value) Value { return e.symVar(a[0].(string), 32) },
		rtPkg + "Int":    func(e *Engine, _ *ssa.Function, a []Value) Value { return e.symVar(a[0].(string), 64) },
		rtPkg + "Uint64": func(e *Engine, _ *ssa.Function, a []Value) Value { return e.symVar(a[0].(string), 64) },
		rtPkg + "Uint32": func(e *Engine, _ *ssa.Function, a []Value) Value { return e.symVar(a[0].(string), 32) },
		rtPkg + "Uint8":  func(e *Engine, _ *ssa.Function, a []Value) Value { return e.symVar(a[0].(string), 8) },
		rtPkg + "Bool":   func(e *Engine, _ *ssa.Function, a []Value) Value { return e.symVar(a[0].(string), 0) },
		rtPkg + "SymString": func(e *Engine, _ *ssa.Function, a []Value) Value {
			name, n := a[0].(string), int(a[1].(int64))
			segs := make([]Seg, n)
			rs := make([]Value, n)
			st := e.st
			for i := 0; i < n; i++ {
				v := e.symVar(fmt.Sprintf("%s_%d", name, i), 32)
				valid := st.AndN(st.Le(st.BV(0, 32), v, true), st.Le(v, st.BV(0x10FFFF, 32), true),
					st.Not(st.And(st.Le(st.BV(0xD800, 32), v, true), st.Le(v, st.BV(0xDFFF, 32), true))))
				e.addPC(valid)
				e.knownValid[v] = true
				segs[i] = Seg{R: v}
				rs[i] = v
			}
			e.symStrs[name] = rs
			return mkString(segs)
		},
		rtPkg + "Assume": func(e *Engine, _ *ssa.Function, a []Value) Value { e.assume(a[0]); return nil },
		rtPkg + "Assert": func(e *Engine, _ *ssa.Function, a []Value) Value { e.assertC(a[0].(string), a[1]); return nil },
		rtPkg + "Reach": func(e *Engine, _ *ssa.Function, a []Value) Value {
			e.reached = append(e.reached, a[0].(string))
			return nil
		},
		rtPkg + "ObserveInt": func(e *Engine, _ *ssa.Function, a []Value) Value {
			e.obs = append(e.obs, obsRec{a[0].(string), a[1]})
			return nil
		},
		rtPkg + "ObserveBool": func(e *Engine, _ *ssa.Function, a []Value) Value {
			e.obs = append(e.obs, obsRec{a[0].(string), a[1]})
			return nil
		},
		rtPkg + "ObserveStr": func(e *Engine, _ *ssa.Function, a []Value) Value {
			e.obs = append(e.obs, obsRec{a[0].(string), a[1]})
			return nil
		},
		rtPkg + "And": func(e *Engine, _ *ssa.Function, a []Value) Value {
			r := e.st.True
			for _, v := range sliceVals(e, a[0]) {
				r = e.st.And(r, e.boolTerm(v))
			}
			return unbool(r)
		},
		rtPkg + "Or": func(e *Engine, _ *ssa.Function, a []Value) Value {
			r := e.st.False
			for _, v := range sliceVals(e, a[0]) {
				r = e.st.Or(r, e.boolTerm(v))
			}
			return unbool(r)
		},
		rtPkg + "Not": func(e *Engine, _ *ssa.Function, a []Value) Value { return e.notV(a[0]) },
		rtPkg + "Implies": func(e *Engine, _ *ssa.Function, a []Value) Value {
			return unbool(e.st.Or(e.st.Not(e.boolTerm(a[0])), e.boolTerm(a[1])))
		},
		rtPkg + "Iff": func(e *Engine, _ *ssa.Function, a []Value) Value {
			return unbool(e.st.Eq(e.boolTerm(a[0]), e.boolTerm(a[1])))
		},
		rtPkg + "IteInt":  func(e *Engine, _ *ssa.Function, a []Value) Value { return ite(e, a[0], a[1], a[2], 64) },
		rtPkg + "IteU64":  func(e *Engine, _ *ssa.Function, a []Value) Value { return ite(e, a[0], a[1], a[2], 64) },
		rtPkg + "IteRune": func(e *Engine, _ *ssa.Function, a []Value) Value { return ite(e, a[0], a[1], a[2], 32) },
		rtPkg + "IteBool": func(e *Engine, _ *ssa.Function, a []Value) Value { return ite(e, a[0], a[1], a[2], 0) },
		rtPkg + "Popcount64": func(e *Engine, _ *ssa.Function, a []Value) Value {
			switch x := a[0].(type) {
			case int64:
				return int64(bits.OnesCount64(uint64(x)))
			case *Term:
				return e.st.Popcount(x)
			}
			panic("popcount")
		},
		rtPkg + "Actor":    func(e *Engine, _ *ssa.Function, a []Value) Value { e.actor = int(a[0].(int64)); return nil },
		rtPkg + "Symbolic": func(e *Engine, _ *ssa.Function, a []Value) Value { return true },
		rtPkg + "Concrete": func(e *Engine, _ *ssa.Function, a []Value) Value {
			// Concrete(x int) int: fork on the feasible values of x
			return e.concreteInt(a[0], "rt.Concrete")
		},
		rtPkg + "CatchPanic": func(e *Engine, _ *ssa.Function, a []Value) (res Value) {
			cl := a[0].(*Closure)
			depth := e.depth
			nframes := len(e.curFrames)
			defer func() {
				if r := recover(); r != nil {
					if gp, ok := r.(*goPanic); ok {
						e.depth = depth
						e.curFrames = e.curFrames[:nframes]
						e.lastPanic = gp.msg + " at " + gp.pos
						res = true
						return
					}
					panic(r)
				}
			}()
			e.call(cl.Fn, nil, cl.Env)
			return false
		},
		rtPkg + "CatchExit": func(e *Engine, _ *ssa.Function, a []Value) (res Value) {
			cl := a[0].(*Closure)
			depth := e.depth
			nframes := len(e.curFrames)
			defer func() {
				if r := recover(); r != nil {
					if ex, ok := r.(exitSignal); ok {
						e.depth = depth
						e.curFrames = e.curFrames[:nframes]
						res = Tuple{ex.code, true}
						return
					}
					panic(r)
				}
			}()
			e.call(cl.Fn, nil, cl.Env)
			return Tuple{int64(0), false}
		},
		rtPkg + "CaptureStderr": func(e *Engine, _ *ssa.Function, a []Value) Value {
			cl := a[0].(*Closure)
			n := len(e.stderr)
			e.call(cl.Fn, nil, cl.Env)
			return joinStr(e.stderr[n:])
		},
		rtPkg + "CaptureStdout": func(e *Engine, _ *ssa.Function, a []Value) Value {
			cl := a[0].(*Closure)
			n := len(e.stdout)
			e.call(cl.Fn, nil, cl.Env)
			return joinStr(e.stdout[n:])
		},
		rtPkg + "LastPanic": func(e *Engine, _ *ssa.Function, a []Value) Value { return e.lastPanic },
		rtPkg + "Stderr":    func(e *Engine, _ *ssa.Function, a []Value) Value { return joinStr(e.stderr) },
		rtPkg + "Stdout":    func(e *Engine, _ *ssa.Function, a []Value) Value { return joinStr(e.stdout) },
		rtPkg + "FootprintsDisjoint": func(e *Engine, _ *ssa.Function, a []Value) Value {
			return e.footprintsDisjoint(int(a[0].(int64)), int(a[1].(int64)))
		},
		rtPkg + "SplitQuote": func(e *Engine, _ *ssa.Function, a []Value) Value {
			switch s := a[0].(type) {
			case string:
				i, j := strings.IndexByte(s, '"'), strings.LastIndexByte(s, '"')
				if i < 0 || j <= i {
					return Tuple{s, "", ""}
				}
				return Tuple{s[:i], s[i : j+1], s[j+1:]}
			case *Rope:
				for k, sg := range s.Segs {
					if sg.Q != nil {
						return Tuple{mkString(s.Segs[:k:k]), mkString([]Seg{sg}), mkString(s.Segs[k+1:])}
					}
				}
			}
			panic(pathEnd{"unsupported", "SplitQuote on a symbolic string without Quote segment"})
		},

		// ---- library stubs ----
		"strconv.Quote": func(e *Engine, _ *ssa.Function, a []Value) Value { return quoteOf(a[0], strconv.Quote) },
		"strconv.Itoa": func(e *Engine, _ *ssa.Function, a []Value) Value {
			return strconv.FormatInt(e.concreteInt(a[0], "Itoa"), 10)
		},
		"strconv.ParseInt":  stubParseInt,
		"strconv.ParseUint": stubParseUint,
		"fmt.Sprintf":       func(e *Engine, _ *ssa.Function, a []Value) Value { return e.sprintf(a[0], sliceVals(e, a[1])) },
		"fmt.Sprint":        func(e *Engine, _ *ssa.Function, a []Value) Value { return e.sprint(sliceVals(e, a[0]), false) },
		"fmt.Sprintln":      func(e *Engine, _ *ssa.Function, a []Value) Value { return e.sprint(sliceVals(e, a[0]), true) },
		"fmt.Errorf": func(e *Engine, _ *ssa.Function, a []Value) Value {
			args := sliceVals(e, a[1])
			n := &Native{Kind: "error", Msg: e.sprintf(strings.ReplaceAll(a[0].(string), "%w", "%v"), args)}
			for _, x := range args {
				if ifc, _ := x.(*Iface); ifc != nil {
					if _, isErr := ifc.V.(*Native); isErr {
						n.Wrap = append(n.Wrap, ifc)
					}
				}
			}
			return &Iface{T: errType, V: n}
		},
		"errors.Join": func(e *Engine, _ *ssa.Function, a []Value) Value {
			var msgs []Value
			n := &Native{Kind: "error"}
			for _, x := range sliceVals(e, a[0]) {
				if ifc, _ := x.(*Iface); ifc != nil {
					n.Wrap = append(n.Wrap, ifc)
					msgs = append(msgs, e.invoke(ifc, errorMethod, nil))
				}
			}
			if len(n.Wrap) == 0 {
				return (*Iface)(nil)
			}
			var segs []Seg
			for i, m := range msgs {
				if i > 0 {
					segs = append(segs, Seg{S: "\n"})
				}
				segs = append(segs, segsOf(m)...)
			}
			n.Msg = mkString(segs)
			return &Iface{T: errType, V: n}
		},
		"errors.Is": func(e *Engine, _ *ssa.Function, a []Value) Value {
			target, _ := a[1].(*Iface)
			var walk func(v Value, depth int) bool
			walk = func(v Value, depth int) bool {
				ifc, _ := v.(*Iface)
				if ifc == nil || target == nil {
					return ifc == nil && target == nil
				}
				if eq, ok := e.valueEq(ifc, target).(bool); ok && eq {
					return true
				}
				if n, ok := ifc.V.(*Native); ok && depth < 8 {
					for _, w := range n.Wrap {
						if walk(w, depth+1) {
							return true
						}
					}
					if isOpaqueErr(n) {
						return e.choicePoint("errclass")
					}
				}
				return false
			}
			return walk(a[0], 0)
		},
		"errors.As": func(e *Engine, _ *ssa.Function, a []Value) Value {
			// target is a non-nil pointer to a variable of an error type (or of an interface type)
			tgt, _ := a[1].(*Iface)
			if tgt == nil {
				panic(pathEnd{"unsupported", "errors.As with a nil target"})
			}
			pt, ok := tgt.T.Underlying().(*types.Pointer)
			cell, okc := tgt.V.(*Cell)
			if !ok || !okc {
				panic(pathEnd{"unsupported", "errors.As target is not a pointer"})
			}
			want := pt.Elem()
			var walk func(v Value, depth int) bool
			walk = func(v Value, depth int) bool {
				ifc, _ := v.(*Iface)
				if ifc == nil || depth > 8 {
					return false
				}
				if _, native := ifc.V.(*Native); !native || types.IsInterface(want) {
					if types.AssignableTo(ifc.T, want) {
						if types.IsInterface(want) {
							e.store(cell, ifc)
						} else {
							e.store(cell, ifc.V)
						}
						return true
					}
				}
				if n, ok := ifc.V.(*Native); ok {
					for _, w := range n.Wrap {
						if walk(w, depth+1) {
							return true
						}
					}
					if isOpaqueErr(n) && !types.IsInterface(want) && e.choicePoint("errclass") {
						e.store(cell, e.zero(want))
						return true
					}
					return false
				}
				// a user-defined error: follow its Unwrap method, if it has one
				if m := e.methodOf(ifc.T, "Unwrap"); m != nil {
					switch r := e.call(m, []Value{ifc.V}, nil).(type) {
					case *Iface:
						return walk(r, depth+1)
					case *SliceV:
						for _, w := range sliceVals(e, r) {
							if walk(w, depth+1) {
								return true
							}
						}
					}
				}
				return false
			}
			return walk(a[0], 0)
		},
		"errors.New": func(e *Engine, _ *ssa.Function, a []Value) Value {
			return &Iface{T: errType, V: &Native{Kind: "error", Msg: a[0]}}
		},
		"fmt.Fprintf": func(e *Engine, _ *ssa.Function, a []Value) Value {
			return e.writeTo(a[0], e.sprintf(a[1], sliceVals(e, a[2])))
		},
		"fmt.Fprint": func(e *Engine, _ *ssa.Function, a []Value) Value {
			return e.writeTo(a[0], e.sprint(sliceVals(e, a[1]), false))
		},
		"fmt.Fprintln": func(e *Engine, _ *ssa.Function, a []Value) Value {
			return e.writeTo(a[0], e.sprint(sliceVals(e, a[1]), true))
		},
		"fmt.Printf": func(e *Engine, _ *ssa.Function, a []Value) Value {
			e.stdout = append(e.stdout, e.sprintf(a[0], sliceVals(e, a[1])))
			return Tuple{int64(0), (*Iface)(nil)}
		},
		"fmt.Println": func(e *Engine, _ *ssa.Function, a []Value) Value {
			e.stdout = append(e.stdout, e.sprint(sliceVals(e, a[0]), true))
			return Tuple{int64(0), (*Iface)(nil)}
		},
		"fmt.Print": func(e *Engine, _ *ssa.Function, a []Value) Value {
			e.stdout = append(e.stdout, e.sprint(sliceVals(e, a[0]), false))
			return Tuple{int64(0), (*Iface)(nil)}
		},
		"os.Exit": func(e *Engine, _ *ssa.Function, a []Value) Value { panic(exitSignal{a[0].(int64)}) },
		"log.Fatal": func(e *Engine, _ *ssa.Function, a []Value) Value {
			e.stderr = append(e.stderr, e.sprint(sliceVals(e, a[0]), true))
			panic(exitSignal{1})
		},
		"log.Fatalf": func(e *Engine, _ *ssa.Function, a []Value) Value {
			e.stderr = append(e.stderr, e.sprintf(a[0], sliceVals(e, a[1])))
			panic(exitSignal{1})
		},
		"(*bytes.Buffer).Write": func(e *Engine, _ *ssa.Function, a []Value) Value {
			c := a[0].(*Cell)
			sv := a[1].(*SliceV)
			var s Value
			if sv.B != nil && sv.B.Rope != nil {
				s = sv.B.Rope.value()
			} else {
				bs := make([]byte, sv.Len)
				for i := range bs {
					bs[i] = byte(sv.B.cell(e, sv.Off+i).V.(int64))
				}
				s = string(bs)
			}
			e.bufAppend(c, s)
			return Tuple{e.writeLen(s), (*Iface)(nil)}
		},
		"(*bytes.Buffer).WriteString": func(e *Engine, _ *ssa.Function, a []Value) Value {
			e.bufAppend(a[0].(*Cell), a[1])
			return Tuple{e.writeLen(a[1]), (*Iface)(nil)}
		},
		"(*bytes.Buffer).String": func(e *Engine, _ *ssa.Function, a []Value) Value {
			if v, ok := e.bufs[a[0].(*Cell)]; ok {
				return v
			}
			return ""
		},
		"(*strings.Builder).WriteString": func(e *Engine, _ *ssa.Function, a []Value) Value {
			e.bufAppend(a[0].(*Cell), a[1])
			return Tuple{e.writeLen(a[1]), (*Iface)(nil)}
		},
		"(*strings.Builder).String": func(e *Engine, _ *ssa.Function, a []Value) Value {
			if v, ok := e.bufs[a[0].(*Cell)]; ok {
				return v
			}
			return ""
		},
		// mutexes: execution is sequential, so a lock never blocks; what is recorded is which
		// locks were held at each access (footprintsDisjoint)
		"(*sync.Mutex).Lock":      func(e *Engine, _ *ssa.Function, a []Value) Value { e.held[a[0].(*Cell).ID]++; return nil },
		"(*sync.Mutex).Unlock":    func(e *Engine, _ *ssa.Function, a []Value) Value { e.unlock(a[0].(*Cell).ID); return nil },
		"(*sync.Mutex).TryLock":   func(e *Engine, _ *ssa.Function, a []Value) Value { e.held[a[0].(*Cell).ID]++; return true },
		"(*sync.RWMutex).Lock":    func(e *Engine, _ *ssa.Function, a []Value) Value { e.held[a[0].(*Cell).ID]++; return nil },
		"(*sync.RWMutex).Unlock":  func(e *Engine, _ *ssa.Function, a []Value) Value { e.unlock(a[0].(*Cell).ID); return nil },
		"(*sync.RWMutex).RLock":   func(e *Engine, _ *ssa.Function, a []Value) Value { e.held[a[0].(*Cell).ID]++; return nil },
		"(*sync.RWMutex).RUnlock": func(e *Engine, _ *ssa.Function, a []Value) Value { e.unlock(a[0].(*Cell).ID); return nil },
		"(*sync.WaitGroup).Go": func(e *Engine, _ *ssa.Function, a []Value) Value {
			// default: run the task immediately (one sequential schedule). With env wg.defer
			// the tasks are queued and Wait runs them, in swapped order if env wg.swap is
			// true (a symbolic boolean explores both orders), each under its own actor.
			cl := a[1].(*Closure)
			if e.envGet("wg.defer") == "1" {
				e.wgTasks = append(e.wgTasks, cl)
				return nil
			}
			e.call(cl.Fn, nil, cl.Env)
			return nil
		},
		"(*sync.WaitGroup).Wait": func(e *Engine, _ *ssa.Function, a []Value) Value {
			tasks := e.wgTasks
			e.wgTasks = nil
			if len(tasks) == 2 {
				swap := false
				switch v := e.envGet("wg.swap").(type) {
				case bool:
					swap = v
				case *Term:
					swap = e.decide(v, "wg.swap")
				}
				if swap {
					tasks[0], tasks[1] = tasks[1], tasks[0]
				}
			}
			for i, cl := range tasks {
				saved := e.actor
				if e.envGet("wg.actors") == "1" {
					e.actor = 100 + i
				}
				e.call(cl.Fn, nil, cl.Env)
				e.actor = saved
			}
			return nil
		},
		"(*sync.Pool).Put": func(e *Engine, _ *ssa.Function, a []Value) Value {
			c := a[0].(*Cell)
			e.touch(c, true)
			e.pools[c] = append(e.pools[c], a[1])
			return nil
		},
		"(*sync.Pool).Get": func(e *Engine, fn *ssa.Function, a []Value) Value {
			// adversarial but allowed behaviour: hand out the most recently Put item
			c := a[0].(*Cell)
			e.touch(c, true)
			if items := e.pools[c]; len(items) > 0 {
				v := items[len(items)-1]
				e.pools[c] = items[:len(items)-1]
				return v
			}
			if nf, ok := e.fieldByName(c, fn.Signature.Recv().Type(), "New"); ok {
				if cl, _ := nf.(*Closure); cl != nil {
					return e.call(cl.Fn, nil, cl.Env)
				}
			}
			return (*Iface)(nil)
		},
		"strings.HasPrefix": func(e *Engine, _ *ssa.Function, a []Value) Value { return e.hasAffix(a[0], a[1], true) },
		"strings.HasSuffix": func(e *Engine, _ *ssa.Function, a []Value) Value { return e.hasAffix(a[0], a[1], false) },
		"strings.ToLower":   func(e *Engine, _ *ssa.Function, a []Value) Value { return e.caseMap(a[0], false) },
		"strings.ToUpper":   func(e *Engine, _ *ssa.Function, a []Value) Value { return e.caseMap(a[0], true) },
	}
	for name, f := range nativeFuncs {
		name, f := name, f
		if _, ok := stubs[name]; ok {
			continue
		}
		stubs[name] = func(e *Engine, fn *ssa.Function, a []Value) Value { return e.callNative(name, f, fn, a) }
	}
}

func unbool(t *Term) Value {
	if t.IsConst() {
		return t.K != 0
	}
	return t
}

func joinStr(parts []Value) Value {
	var segs []Seg
	for _, p := range parts {
		segs = append(segs, segsOf(p)...)
	}
	return mkString(segs)
}

func (e *Engine) bufAppend(c *Cell, s Value) {
	if old, ok := e.bufs[c]; ok {
		e.bufs[c] = concatStr(old, s)
	} else {
		e.bufs[c] = s
	}
}

var errType = types.Universe.Lookup("error").Type()
var errorMethod = errType.Underlying().(*types.Interface).Method(0)

// writeTo implements fmt.Fprint* : route to the writer.
func (e *Engine) writeTo(w Value, s Value) Value {
	ifc, _ := w.(*Iface)
	if ifc == nil {
		panic(&goPanic{msg: "runtime error: invalid memory address or nil pointer dereference (nil io.Writer)", rt: true})
	}
	n := e.writeLen(s)
	switch ifc.T.String() {
	case "*os.File":
		switch fileName(ifc) {
		case "<stderr>":
			e.stderr = append(e.stderr, s)
		case "<stdout>":
			e.stdout = append(e.stdout, s)
		default:
			e.fileWrites = append(e.fileWrites, s)
		}
		return Tuple{n, (*Iface)(nil)}
	case "*bytes.Buffer", "*strings.Builder":
		e.bufAppend(ifc.V.(*Cell), s)
		return Tuple{n, (*Iface)(nil)}
	}
	// a writer implemented in interpreted code: call its Write([]byte)
	fn := e.methodOf(ifc.T, "Write")
	if fn == nil {
		panic(pathEnd{"unsupported", "Fprint to " + ifc.T.String()})
	}
	var arg Value
	switch x := s.(type) {
	case string:
		cells := make([]*Cell, len(x))
		for i := 0; i < len(x); i++ {
			cells[i] = e.newCell(int64(x[i]))
		}
		arg = &SliceV{B: &Backing{Cells: cells, Elem: types.Typ[types.Byte]}, Len: len(x), Cap: len(x)}
	case *Rope:
		arg = &SliceV{B: &Backing{Rope: x, Elem: types.Typ[types.Byte]}, Len: -1, Cap: -1}
	}
	return e.call(fn, []Value{ifc.V, arg}, nil)
}

// writeLen is the byte count reported by a write; for strings containing Quote(symbolic) the
// count is not modelled (0) — no code under check reads it.
func (e *Engine) writeLen(s Value) Value {
	if r, ok := s.(*Rope); ok {
		for _, sg := range r.Segs {
			if sg.Q != nil {
				return int64(0)
			}
		}
	}
	return e.strLen(s)
}

// ---- fmt ----

// toNative converts an interface argument for native formatting. Symbolic strings become
// placeholders that are substituted back afterwards.
func (e *Engine) toNative(v Value, ph *[]Value) any {
	ifc, _ := v.(*Iface)
	if ifc == nil {
		return nil
	}
	return e.toNativeT(ifc.V, ifc.T, ph)
}

func (e *Engine) placeholder(v Value, ph *[]Value) string {
	*ph = append(*ph, v)
	return fmt.Sprintf("\x00%d\x00", len(*ph)-1)
}

func (e *Engine) toNativeT(v Value, t types.Type, ph *[]Value) any {
	// Stringer / error first
	if nat, ok := v.(*Native); ok {
		switch m := nat.Msg.(type) {
		case string:
			return errors.New(m)
		default:
			return errors.New(e.placeholder(m, ph))
		}
	}
	if _, isIface := t.Underlying().(*types.Interface); !isIface {
		for _, name := range []string{"Error", "String"} {
			if fn := e.methodOf(t, name); fn != nil && fn.Signature.Params().Len() == 0 && fn.Signature.Results().Len() == 1 {
				r := e.call(fn, []Value{v}, nil)
				if s, ok := r.(string); ok {
					return stringer(s)
				}
				return stringer(e.placeholder(r, ph))
			}
		}
	}
	switch x := v.(type) {
	case bool:
		return x
	case string:
		return x
	case *Rope:
		return e.placeholder(x, ph)
	case float64:
		return x
	case int64:
		w, signed := width(t)
		switch {
		case w == 32 && signed:
			return int32(x)
		case w == 8 && !signed:
			return uint8(x)
		case !signed:
			return uint64(x)
		}
		return x
	case *Term:
		c := e.concretize(x)
		_, signed := width(t)
		if !signed {
			return uint64(c) & mask(x.W)
		}
		return c
	case *Iface:
		if x == nil {
			return nil
		}
		return e.toNativeT(x.V, x.T, ph)
	case *Cell:
		if x == nil {
			return nil
		}
		return fmt.Sprintf("0xc%06x", x.ID)
	}
	panic(pathEnd{"unsupported", fmt.Sprintf("formatting a %T (%s)", v, t)})
}

type stringer string

func (s stringer) String() string { return string(s) }

func (e *Engine) substitute(s string, ph []Value) Value {
	if len(ph) == 0 {
		return s
	}
	var segs []Seg
	for {
		i := strings.IndexByte(s, 0)
		if i < 0 {
			break
		}
		j := strings.IndexByte(s[i+1:], 0)
		if j < 0 {
			break
		}
		k, err := strconv.Atoi(s[i+1 : i+1+j])
		if err != nil || k >= len(ph) {
			break
		}
		segs = append(segs, Seg{S: s[:i]})
		segs = append(segs, segsOf(ph[k])...)
		s = s[i+j+2:]
	}
	segs = append(segs, Seg{S: s})
	return mkString(segs)
}

func (e *Engine) sprintf(format Value, args []Value) Value {
	f, ok := format.(string)
	if !ok {
		panic(pathEnd{"unsupported", "symbolic format string"})
	}
	if strings.Contains(f, "%q") {
		// %q of a symbolic string: handled as Quote
		for _, a := range args {
			if ifc, _ := a.(*Iface); ifc != nil {
				if _, sym := ifc.V.(*Rope); sym {
					panic(pathEnd{"unsupported", "%q with symbolic string"})
				}
			}
		}
	}
	var ph []Value
	nat := make([]any, len(args))
	for i, a := range args {
		nat[i] = e.toNative(a, &ph)
	}
	return e.substitute(fmt.Sprintf(f, nat...), ph)
}

func (e *Engine) sprint(args []Value, ln bool) Value {
	var ph []Value
	nat := make([]any, len(args))
	for i, a := range args {
		nat[i] = e.toNative(a, &ph)
	}
	if ln {
		return e.substitute(fmt.Sprintln(nat...), ph)
	}
	return e.substitute(fmt.Sprint(nat...), ph)
}

// nativeMethod dispatches interface method calls on engine-native objects.
func (e *Engine) nativeMethod(n *Native, name string, args []Value, m *types.Func) Value {
	switch n.Kind + "." + name {
	case "fileinfo.Mode", "fileinfo.ModTime", "fileinfo.Size", "fileinfo.IsDir", "fileinfo.Name":
		// an opaque os.FileInfo: its observations are decided by the methods called on the results
		if name == "Name" {
			return n.Data
		}
		if name == "IsDir" {
			return e.choicePoint("isdir")
		}
		return e.zero(m.Type().(*types.Signature).Results().At(0).Type())
	case "error.Error":
		return n.Msg
	case "error.Unwrap":
		if len(n.Wrap) > 0 {
			return n.Wrap[0]
		}
		return (*Iface)(nil)
	}
	panic(pathEnd{"unsupported", "method " + name + " on native " + n.Kind})
}

// ---- strings / strconv models on symbolic strings ----

// caseMap models strings.ToLower/ToUpper: exact on concrete strings; on symbolic runes exact
// for ASCII, and a fork to "non-ASCII" is UNSUPPORTED (harnesses assume it away and say so).
func (e *Engine) caseMap(v Value, upper bool) Value {
	if s, ok := v.(string); ok {
		if upper {
			return strings.ToUpper(s)
		}
		return strings.ToLower(s)
	}
	st := e.st
	var segs []Seg
	for _, sg := range segsOf(v) {
		switch {
		case sg.Q != nil:
			panic(pathEnd{"unsupported", "case mapping of Quote(symbolic)"})
		case sg.R != nil:
			r := sg.R
			if !e.decideV(st.Lt(r, st.BV(0x80, 32), true), "ascii") {
				panic(pathEnd{"unsupported", "case mapping of a symbolic non-ASCII rune"})
			}
			var m *Term
			if upper {
				isLower := st.And(st.Le(st.BV('a', 32), r, true), st.Le(r, st.BV('z', 32), true))
				m = st.Ite(isLower, st.Bin(OpSub, r, st.BV(32, 32)), r)
			} else {
				isUpper := st.And(st.Le(st.BV('A', 32), r, true), st.Le(r, st.BV('Z', 32), true))
				m = st.Ite(isUpper, st.Bin(OpAdd, r, st.BV(32, 32)), r)
			}
			e.knownValid[m] = true
			segs = append(segs, Seg{R: m})
		default:
			if upper {
				segs = append(segs, Seg{S: strings.ToUpper(sg.S)})
			} else {
				segs = append(segs, Seg{S: strings.ToLower(sg.S)})
			}
		}
	}
	return mkString(segs)
}

// stubParseInt models strconv.ParseInt(s, base, bitSize) for base 8/10/16 on strings of at most
// 15 digit runes; symbolic digits must already be constrained to valid digits by the path.
func stubParseInt(e *Engine, _ *ssa.Function, a []Value) Value {
	base := e.concreteInt(a[1], "ParseInt base")
	bitSize := e.concreteInt(a[2], "ParseInt bitSize")
	if s, ok := a[0].(string); ok {
		v, err := strconv.ParseInt(s, int(base), int(bitSize))
		if err != nil {
			return Tuple{v, &Iface{T: errType, V: &Native{Kind: "error", Msg: err.Error()}}}
		}
		return Tuple{v, (*Iface)(nil)}
	}
	its := items(a[0])
	if len(its) == 0 || len(its) > 15 || (base != 8 && base != 16 && base != 10) {
		panic(pathEnd{"unsupported", "ParseInt on this symbolic string"})
	}
	st := e.st
	acc := st.BV(0, 64)
	for _, it := range its {
		if it.Q != nil || it.Raw != "" {
			panic(pathEnd{"unsupported", "ParseInt on this symbolic string"})
		}
		r := st.Resize(e.runeTerm(it.R), 64, true)
		c := func(k int64) *Term { return st.BV(uint64(k), 64) }
		isDigit := st.And(st.Le(c('0'), r, true), st.Le(r, c('9'), true))
		isLow := st.And(st.Le(c('a'), r, true), st.Le(r, c('f'), true))
		isUp := st.And(st.Le(c('A'), r, true), st.Le(r, c('F'), true))
		d := st.Ite(isDigit, st.Bin(OpSub, r, c('0')), st.Ite(isLow, st.Bin(OpSub, r, c('a'-10)), st.Bin(OpSub, r, c('A'-10))))
		okDigit := st.And(st.Or(isDigit, st.Or(isLow, isUp)), st.Lt(d, c(base), true))
		if !e.decideV(okDigit, "digit") {
			// invalid syntax: ParseInt returns 0, ErrSyntax
			return Tuple{int64(0), &Iface{T: errType, V: &Native{Kind: "error", Msg: "strconv.ParseInt: invalid syntax"}}}
		}
		acc = st.Bin(OpAdd, st.Bin(OpMul, acc, c(base)), d)
	}
	maxV := int64(1)<<(uint(bitSize)-1) - 1
	if bitSize == 0 || bitSize == 64 {
		maxV = int64(^uint64(0) >> 1)
	}
	over := st.Lt(st.BV(uint64(maxV), 64), acc, false)
	if e.decideV(over, "range") {
		return Tuple{maxV, &Iface{T: errType, V: &Native{Kind: "error", Msg: "strconv.ParseInt: value out of range"}}}
	}
	return Tuple{acc, (*Iface)(nil)}
}

// stubParseUint models strconv.ParseUint like stubParseInt (unsigned clamp).
func stubParseUint(e *Engine, fn *ssa.Function, a []Value) Value {
	base := e.concreteInt(a[1], "ParseUint base")
	bitSize := e.concreteInt(a[2], "ParseUint bitSize")
	if s, ok := a[0].(string); ok {
		v, err := strconv.ParseUint(s, int(base), int(bitSize))
		if err != nil {
			return Tuple{int64(v), &Iface{T: errType, V: &Native{Kind: "error", Msg: err.Error()}}}
		}
		return Tuple{int64(v), (*Iface)(nil)}
	}
	// reuse the digit accumulation of ParseInt with a 63-bit ceiling, then clamp unsigned
	r := stubParseInt(e, fn, []Value{a[0], a[1], int64(64)}).(Tuple)
	if r[1].(*Iface) != nil {
		return r
	}
	if bitSize == 0 || bitSize >= 64 {
		return r
	}
	maxV := int64(1)<<uint(bitSize) - 1
	st := e.st
	acc := e.intTerm(r[0], 64)
	if e.decideV(st.Lt(st.BV(uint64(maxV), 64), acc, false), "urange") {
		return Tuple{maxV, &Iface{T: errType, V: &Native{Kind: "error", Msg: "strconv.ParseUint: value out of range"}}}
	}
	return Tuple{acc, (*Iface)(nil)}
}

// ---- native calls by reflection (pure library functions on fully concrete arguments) ----

var nativeFuncs = map[string]any{
	"strings.Join":                        strings.Join,
	"strings.Cut":                         strings.Cut,
	"strings.HasPrefix":                   strings.HasPrefix,
	"strings.HasSuffix":                   strings.HasSuffix,
	"strings.Contains":                    strings.Contains,
	"strings.Index":                       strings.Index,
	"strings.IndexByte":                   strings.IndexByte,
	"strings.LastIndexByte":               strings.LastIndexByte,
	"strings.Repeat":                      strings.Repeat,
	"strings.TrimSpace":                   strings.TrimSpace,
	"strings.TrimPrefix":                  strings.TrimPrefix,
	"strings.TrimSuffix":                  strings.TrimSuffix,
	"strings.Split":                       strings.Split,
	"strings.Fields":                      strings.Fields,
	"strings.ReplaceAll":                  strings.ReplaceAll,
	"strings.Replace":                     strings.Replace,
	"strings.Count":                       strings.Count,
	"strings.EqualFold":                   strings.EqualFold,
	"strconv.Atoi":                        strconv.Atoi,
	"strconv.FormatInt":                   strconv.FormatInt,
	"strconv.ParseUint":                   strconv.ParseUint,
	"unicode.ToUpper":                     unicode.ToUpper,
	"unicode.ToLower":                     unicode.ToLower,
	"unicode.IsUpper":                     unicode.IsUpper,
	"unicode.IsLower":                     unicode.IsLower,
	"unicode.IsLetter":                    unicode.IsLetter,
	"unicode.IsDigit":                     unicode.IsDigit,
	"unicode.IsSpace":                     unicode.IsSpace,
	"unicode/utf8.RuneCountInString":      utf8.RuneCountInString,
	"unicode/utf8.RuneLen":                utf8.RuneLen,
	"unicode/utf8.ValidString":            utf8.ValidString,
	"unicode/utf8.DecodeRuneInString":     utf8.DecodeRuneInString,
	"unicode/utf8.DecodeLastRuneInString": utf8.DecodeLastRuneInString,
	"unicode/utf8.ValidRune":              utf8.ValidRune,
	"unicode/utf8.FullRuneInString":       utf8.FullRuneInString,
}

func (e *Engine) callNative(name string, f any, fn *ssa.Function, args []Value) Value {
	fv := reflect.ValueOf(f)
	ft := fv.Type()
	in := make([]reflect.Value, len(args))
	for i, a := range args {
		in[i] = e.toReflect(name, a, ft.In(i))
	}
	out := fv.Call(in)
	res := make(Tuple, len(out))
	for i, o := range out {
		res[i] = e.fromReflect(name, o)
	}
	switch len(res) {
	case 0:
		return nil
	case 1:
		return res[0]
	}
	return res
}

func (e *Engine) toReflect(name string, v Value, t reflect.Type) reflect.Value {
	switch t.Kind() {
	case reflect.String:
		if s, ok := v.(string); ok {
			return reflect.ValueOf(s)
		}
	case reflect.Bool:
		if b, ok := v.(bool); ok {
			return reflect.ValueOf(b)
		}
	case reflect.Int, reflect.Int8, reflect.Int16, reflect.Int32, reflect.Int64:
		r := reflect.New(t).Elem()
		r.SetInt(e.concreteInt(v, name))
		return r
	case reflect.Uint, reflect.Uint8, reflect.Uint16, reflect.Uint32, reflect.Uint64:
		r := reflect.New(t).Elem()
		r.SetUint(uint64(e.concreteInt(v, name)))
		return r
	case reflect.Slice:
		vals := sliceVals(e, v)
		r := reflect.MakeSlice(t, len(vals), len(vals))
		for i, x := range vals {
			r.Index(i).Set(e.toReflect(name, x, t.Elem()))
		}
		return r
	}
	panic(pathEnd{"unsupported", fmt.Sprintf("native call %s with symbolic or unsupported argument %T", name, v)})
}

func (e *Engine) fromReflect(name string, o reflect.Value) Value {
	switch o.Kind() {
	case reflect.String:
		return o.String()
	case reflect.Bool:
		return o.Bool()
	case reflect.Int, reflect.Int8, reflect.Int16, reflect.Int32, reflect.Int64:
		return o.Int()
	case reflect.Uint, reflect.Uint8, reflect.Uint16, reflect.Uint32, reflect.Uint64:
		return int64(o.Uint())
	case reflect.Slice:
		n := o.Len()
		cells := make([]*Cell, n)
		for i := 0; i < n; i++ {
			cells[i] = e.newCell(e.fromReflect(name, o.Index(i)))
		}
		var el types.Type = types.Typ[types.String]
		if o.Type().Elem().Kind() == reflect.Uint8 {
			el = types.Typ[types.Byte]
		}
		return &SliceV{B: &Backing{Cells: cells, Elem: el}, Len: n, Cap: n}
	case reflect.Interface:
		if o.IsNil() {
			return (*Iface)(nil)
		}
		if err, ok := o.Interface().(error); ok {
			return &Iface{T: errType, V: &Native{Kind: "error", Msg: err.Error()}}
		}
	}
	panic(pathEnd{"unsupported", "native result of " + name})
}

// ---- footprints ----

func (e *Engine) footprintsDisjoint(a, b int) Value {
	fa, fb := e.foot[a], e.foot[b]
	la, lb := e.lockFoot[a], e.lockFoot[b]
	conflict := func(id int) Value {
		e.lastConflict = id
		return false
	}
	// unsynchronised against unsynchronised
	for id, m := range fa {
		if m2, ok := fb[id]; ok && (m&2 != 0 || m2&2 != 0) {
			return conflict(id)
		}
	}
	// unsynchronised against locked: the lock does not help
	for id, m := range fa {
		if x := lb[id]; x != nil && (m&2 != 0 || x.write) {
			return conflict(id)
		}
	}
	for id, m := range fb {
		if x := la[id]; x != nil && (m&2 != 0 || x.write) {
			return conflict(id)
		}
	}
	// locked against locked: ordered by a lock both sides always held, otherwise a conflict.
	// (Accesses ordered by a common lock are not a data race; whether their order shows in the
	// result is decided by running the tasks in both orders.)
	for id, x := range la {
		y := lb[id]
		if y == nil || !(x.write || y.write) {
			continue
		}
		common := false
		for l := range x.locks {
			if y.locks[l] {
				common = true
				break
			}
		}
		if !common {
			return conflict(id)
		}
	}
	return true
}

func (e *Engine) unlock(id int) {
	if e.held[id] <= 1 {
		delete(e.held, id)
	} else {
		e.held[id]--
	}
}

// methodOf finds the method `name` in the method set of t (nil if none).
func (e *Engine) methodOf(t types.Type, name string) *ssa.Function {
	mset := e.prog.MethodSets.MethodSet(t)
	for i := 0; i < mset.Len(); i++ {
		sel := mset.At(i)
		if sel.Obj().Name() == name {
			return e.prog.MethodValue(sel)
		}
	}
	return nil
}

// hasAffix models strings.HasPrefix / HasSuffix on strings with symbolic runes (rune-wise).
func (e *Engine) hasAffix(sv, pv Value, prefix bool) Value {
	if s, ok := sv.(string); ok {
		if p, ok := pv.(string); ok {
			if prefix {
				return strings.HasPrefix(s, p)
			}
			return strings.HasSuffix(s, p)
		}
	}
	is, ip := items(sv), items(pv)
	if len(ip) > len(is) {
		return false
	}
	if !prefix {
		is = is[len(is)-len(ip):]
	}
	res := e.st.True
	for i := range ip {
		x, y := is[i], ip[i]
		if x.Q != nil || y.Q != nil || x.Raw != "" || y.Raw != "" {
			panic(pathEnd{"unsupported", "HasPrefix/HasSuffix on this symbolic string"})
		}
		res = e.st.And(res, e.st.Eq(e.runeTerm(x.R), e.runeTerm(y.R)))
	}
	return unbool(res)
}
